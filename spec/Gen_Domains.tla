---------------------------- MODULE Gen_Domains ----------------------------
(***************************************************************************)
(* Behaviour generator for Domains.tla: every reachable state of the model   *)
(* is printed once (VIEW hides the operation history) together with the      *)
(* sequence of operations that first reached it and with everything the      *)
(* specification says the look-ups of the real IntegerDomain must return in  *)
(* that state.  The harness replays the operations on the real               *)
(* `Assignments` (hook `verif::domain_probe`) and compares every look-up.    *)
(***************************************************************************)
EXTENDS Domains, Json, TLC

GLo == -1
VARIABLE ops
gvars == <<vars, ops>>

GInit == Init /\ ops = <<>>
GNext ==
    \/ \E k \in Lo..(Hi + 1) : TightenLb(k) /\ ops' = Append(ops, [op |-> "ge", k |-> k])
    \/ \E k \in (Lo - 1)..Hi : TightenUb(k) /\ ops' = Append(ops, [op |-> "le", k |-> k])
    \/ \E k \in Vals : Remove(k) /\ ops' = Append(ops, [op |-> "ne", k |-> k])
    \/ NewLevel /\ ops' = Append(ops, [op |-> "level", k |-> 0])
    \/ \E l \in 0..MaxLevel : Backtrack(l) /\ ops' = Append(ops, [op |-> "backtrack", k |-> l])
GSpec == GInit /\ [][GNext]_gvars
gview == vars

Positions == 0..Len(trail)
Observation ==
    [ops |-> ops, lo |-> Lo, hi |-> Hi, consistent |-> Consistent, lb |-> LB, ub |-> UB,
     contains |-> [i \in 1..(Hi - Lo + 1) |-> Contains(Lo + i - 1)],
     at |-> [i \in 1..(Len(trail) + 1) |->
                [lb |-> LBAt(i - 1), ub |-> UBAt(i - 1),
                 contains |-> [j \in 1..(Hi - Lo + 1) |-> ContainsAt(Lo + j - 1, i - 1)]]],
     info |-> [i \in 1..(Hi - Lo + 1) |->
                [ge |-> InfoGe(Lo + i - 1), le |-> InfoLe(Lo + i - 1),
                 ne |-> InfoNe(Lo + i - 1), eq |-> InfoEq(Lo + i - 1)]]]
\* look-ups are only compared on consistent domains (the code pops the offending entry before it
\* asks anything of an empty domain)
Emit == ~Consistent \/ PrintT("GENJ " \o ToJson(Observation))
=============================================================================
