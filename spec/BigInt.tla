------------------------------- MODULE BigInt -------------------------------
(***************************************************************************)
(* Exact integer arithmetic beyond TLC's 32-bit integers: sign + magnitude  *)
(* in base 2^15 (little endian), so that every intermediate value TLC       *)
(* computes stays below 2^31.  Used to evaluate the meaning of constraints  *)
(* at magnitudes up to 2^31 (property C16), where the solver's own i32/i64  *)
(* arithmetic may wrap.                                                     *)
(***************************************************************************)
EXTENDS Integers, Sequences

B == 32768

\* ---- magnitudes: sequences of limbs in 0..B-1, no trailing zero limb, <<>> is zero
RECURSIVE Trim(_)
Trim(m) == IF m # <<>> /\ m[Len(m)] = 0 THEN Trim(SubSeq(m, 1, Len(m) - 1)) ELSE m

MagOfNat(n) ==        \* n in 0 .. 2^31 - 1
    Trim(<<n % B, (n \div B) % B, n \div (B * B)>>)

Limb(m, i) == IF i <= Len(m) THEN m[i] ELSE 0
MaxLen(a, b) == IF Len(a) >= Len(b) THEN Len(a) ELSE Len(b)

RECURSIVE MagAddFrom(_, _, _, _)
MagAddFrom(a, b, i, carry) ==
    IF i > MaxLen(a, b) THEN (IF carry = 0 THEN <<>> ELSE <<carry>>)
    ELSE LET s == Limb(a, i) + Limb(b, i) + carry
         IN  <<s % B>> \o MagAddFrom(a, b, i + 1, s \div B)
MagAdd(a, b) == Trim(MagAddFrom(a, b, 1, 0))

RECURSIVE MagCmpFrom(_, _, _)
MagCmpFrom(a, b, i) ==      \* compares limbs i, i-1, ..., 1 : -1, 0, 1
    IF i = 0 THEN 0
    ELSE IF Limb(a, i) < Limb(b, i) THEN -1
    ELSE IF Limb(a, i) > Limb(b, i) THEN 1
    ELSE MagCmpFrom(a, b, i - 1)
MagCmp(a, b) == MagCmpFrom(a, b, MaxLen(a, b))

RECURSIVE MagSubFrom(_, _, _, _)
MagSubFrom(a, b, i, borrow) ==      \* a >= b
    IF i > Len(a) THEN <<>>
    ELSE LET d == Limb(a, i) - Limb(b, i) - borrow
         IN  IF d < 0 THEN <<d + B>> \o MagSubFrom(a, b, i + 1, 1)
             ELSE <<d>> \o MagSubFrom(a, b, i + 1, 0)
MagSub(a, b) == Trim(MagSubFrom(a, b, 1, 0))

\* a * (single limb d), shifted by k limbs
RECURSIVE MagMulLimbFrom(_, _, _, _)
MagMulLimbFrom(a, d, i, carry) ==
    IF i > Len(a) THEN (IF carry = 0 THEN <<>> ELSE <<carry>>)
    ELSE LET p == a[i] * d + carry
         IN  <<p % B>> \o MagMulLimbFrom(a, d, i + 1, p \div B)
Zeros(k) == [i \in 1..k |-> 0]
RECURSIVE MagMulFrom(_, _, _)
MagMulFrom(a, b, j) ==
    IF j > Len(b) THEN <<>>
    ELSE MagAdd(Zeros(j - 1) \o MagMulLimbFrom(a, b[j], 1, 0), MagMulFrom(a, b, j + 1))
MagMul(a, b) == Trim(MagMulFrom(a, b, 1))

\* ---- signed numbers
Big(n) == [neg |-> n < 0, mag |-> IF n < 0 THEN (IF n = -2147483647 - 1 THEN <<0, 0, 2>> ELSE MagOfNat(-n))
                                   ELSE MagOfNat(n)]
Norm(x) == IF x.mag = <<>> THEN [neg |-> FALSE, mag |-> <<>>] ELSE x
BNeg(x) == Norm([neg |-> ~x.neg, mag |-> x.mag])
BAdd(x, y) ==
    IF x.neg = y.neg THEN Norm([neg |-> x.neg, mag |-> MagAdd(x.mag, y.mag)])
    ELSE IF MagCmp(x.mag, y.mag) >= 0 THEN Norm([neg |-> x.neg, mag |-> MagSub(x.mag, y.mag)])
    ELSE Norm([neg |-> y.neg, mag |-> MagSub(y.mag, x.mag)])
BSub(x, y) == BAdd(x, BNeg(y))
BMul(x, y) == Norm([neg |-> x.neg # y.neg, mag |-> MagMul(x.mag, y.mag)])
BAbs(x) == [neg |-> FALSE, mag |-> x.mag]
BCmp(x, y) ==         \* -1, 0, 1
    LET a == Norm(x) b == Norm(y) IN
    IF a.neg /\ ~b.neg THEN -1
    ELSE IF ~a.neg /\ b.neg THEN 1
    ELSE IF ~a.neg THEN MagCmp(a.mag, b.mag) ELSE MagCmp(b.mag, a.mag)
BLe(x, y) == BCmp(x, y) <= 0
BLt(x, y) == BCmp(x, y) < 0
BEq(x, y) == BCmp(x, y) = 0
BZero == [neg |-> FALSE, mag |-> <<>>]

\* ---- the meaning of constraints in exact arithmetic (views s*x+o, assignment a of 32-bit values)
BVal(x, a) == BAdd(BMul(Big(x.s), Big(a[x.v])), Big(x.o))
BSum(ts, a) ==
    LET S[i \in 0..Len(ts)] == IF i = 0 THEN BZero ELSE BAdd(S[i-1], BVal(ts[i], a))
    IN  S[Len(ts)]

\* q = trunc(n / d), by the multiplication relation (no big division needed)
BTruncDivRel(n, d, q) ==
    LET qd == BAbs(BMul(q, d)) IN
    /\ ~BEq(d, BZero)
    /\ BLe(qd, BAbs(n)) /\ BLt(BAbs(n), BAdd(qd, BAbs(d)))
    /\ (~BEq(q, BZero) => (~q.neg <=> (Norm(n).neg = Norm(d).neg)))

BigHolds(c, a) ==
    CASE c.k = "lin_le" -> BLe(BSum(c.terms, a), Big(c.rhs))
      [] c.k = "lin_eq" -> BEq(BSum(c.terms, a), Big(c.rhs))
      [] c.k = "lin_ne" -> ~BEq(BSum(c.terms, a), Big(c.rhs))
      [] c.k = "plus"   -> BEq(BAdd(BVal(c.a, a), BVal(c.b, a)), BVal(c.c, a))
      [] c.k = "times"  -> BEq(BMul(BVal(c.a, a), BVal(c.b, a)), BVal(c.c, a))
      [] c.k = "div"    -> BTruncDivRel(BVal(c.a, a), BVal(c.b, a), BVal(c.c, a))
      [] c.k = "abs"    -> BEq(BAbs(BVal(c.a, a)), BVal(c.b, a))
      [] c.k = "max"    -> /\ \A i \in DOMAIN c.xs : BLe(BVal(c.xs[i], a), BVal(c.y, a))
                           /\ \E i \in DOMAIN c.xs : BEq(BVal(c.xs[i], a), BVal(c.y, a))
      [] c.k = "min"    -> /\ \A i \in DOMAIN c.xs : BLe(BVal(c.y, a), BVal(c.xs[i], a))
                           /\ \E i \in DOMAIN c.xs : BEq(BVal(c.xs[i], a), BVal(c.y, a))
      [] c.k = "element" -> LET i == BVal(c.idx, a) IN
                            \E j \in DOMAIN c.xs : BEq(i, Big(j - 1)) /\ BEq(BVal(c.xs[j], a), BVal(c.y, a))
      [] c.k = "bin_le" -> BLe(BVal(c.a, a), BVal(c.b, a))
      [] c.k = "bin_ne" -> ~BEq(BVal(c.a, a), BVal(c.b, a))
=============================================================================
