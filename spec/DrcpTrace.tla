----------------------------- MODULE DrcpTrace -----------------------------
(***************************************************************************)
(* Property C06: the trace IS the proof.  The harness posts a model through *)
(* the library with every constraint tagged, solves it with proof logging   *)
(* (scaffold / full / full with hints), and afterwards turns the .drcp and  *)
(* .lits files the library wrote into PInf / PNogood / PDel / PConcl events *)
(* (codes resolved through the .lits file by the harness' own tokenizer).   *)
(* This specification replays those steps through the checker of Drcp.tla   *)
(* against the meaning of the posted model (Constraints.tla).               *)
(***************************************************************************)
EXTENDS Drcp, Sequences, Json, IOUtils, TLC, TLCExt

VARIABLES l, scn, vars, cons, sol, obj, res, mode, ngs, infs, allsteps, bounds, lastNg, concluded

tvars == <<l, scn, vars, cons, sol, obj, res, mode, ngs, infs, allsteps, bounds, lastNg, concluded>>

Rec == TLCEval(ndJsonDeserialize(IOEnv.TRACE))

Mon(label, ok, witness) ==
    IF ok THEN TRUE
    ELSE PrintT("MONJ " \o ToJson([mon |-> label, fam |-> scn[1], id |-> scn[2], i |-> l,
                                   w |-> ToString(witness)]))

Fill == [v \in DOMAIN vars |-> Min(vars[v])]
NoObj == [set |-> FALSE, x |-> [v |-> 1, s |-> 1, o |-> 0], max |-> FALSE]
NoRes == [res |-> "NONE", sol |-> <<>>]
ConsWithTag(t) == {i \in DOMAIN cons : cons[i].tag = t}

Init ==
    /\ l = 1 /\ scn = <<"none", 0>> /\ vars = <<{1}>> /\ cons = <<>> /\ sol = {<<1>>}
    /\ obj = NoObj /\ res = NoRes /\ mode = "none" /\ ngs = {} /\ infs = {} /\ allsteps = {}
    /\ bounds = {} /\ lastNg = <<"none">> /\ concluded = FALSE

InBounds(a) == \A b \in bounds : TrueP(b, a)
ObjVal(a) == Val(obj.x, a)

\* A literal created by new_literal_for_predicate never occurs in a proof: the predicate it stands
\* for is written instead. An inference therefore follows from its tagged constraint TOGETHER with
\* the definitions of such literals (which a checker applies as a substitution).
Defs == {i \in DOMAIN cons : cons[i].c.k = "lit_pred"}
FollowsModuloDefinitions(c, e) ==
    LET S == Scope(c) \cup PredVars(e.prem) \cup (IF e.has THEN {e.concl.x.v} ELSE {})
                 \cup UNION {Scope(cons[i].c) : i \in Defs}
    IN  \A a \in ScopeAsgs(vars, S, Fill) :
            (Holds(c, a) /\ AllTrue(e.prem, a) /\ \A i \in Defs : Holds(cons[i].c, a))
                => (e.has /\ TrueP(e.concl, a))

\* ---- proof steps
TrInf(e) ==
    LET C == InfClause(e.prem, e.has, e.concl)
        tagged == ConsWithTag(e.tag)
        isBound == /\ obj.set /\ ~e.has /\ Len(e.prem) = 1 /\ e.prem[1].x.v = obj.x.v
                   \* the solver found a solution on the boundary of the premise: "strictly better"
                   /\ \E a \in sol : TrueP(e.prem[1], a) /\ ~TrueP(e.prem[1], [a EXCEPT ![obj.x.v] =
                           IF e.prem[1].op = "ge" THEN @ - 1 ELSE @ + 1])
        domainOnly == IF e.has THEN DomainEntails(vars, Fill, e.prem, e.concl)
                      ELSE \A a \in ScopeAsgs(vars, PredVars(e.prem), Fill) : ~AllTrue(e.prem, a)
    IN
    /\ Mon("C06.StepIdFresh", ~\E s \in allsteps : s.id = e.id, e.id)
    /\ IF e.tag # 0 THEN
          /\ Mon("C06.TagKnown", tagged # {}, e)
          /\ Mon("C06.InferenceFollowsFromTaggedConstraint",
                 tagged = {} \/ \A i \in tagged : FollowsModuloDefinitions(cons[i].c, e),
                 [step |-> e, constraint |-> {cons[i].c : i \in tagged}])
       \* untagged: an improvement step of the optimisation, pure domain reasoning, or a propagation
       \* by a nogood derived earlier (then it follows from the live nogoods by reverse propagation)
       ELSE Mon("C06.UntaggedInference", isBound \/ domainOnly \/ RUP(vars, {s.c : s \in ngs}, C), e)
    /\ bounds' = IF e.tag = 0 /\ isBound /\ ~domainOnly THEN bounds \cup {Neg(e.prem[1])} ELSE bounds
    /\ infs' = infs \cup {[id |-> e.id, c |-> C]}
    /\ allsteps' = allsteps \cup {[id |-> e.id, c |-> C, kind |-> "i"]}
    /\ UNCHANGED <<scn, vars, cons, sol, obj, res, mode, ngs, lastNg, concluded>>

TrNogood(e) ==
    LET hinted == {s \in allsteps : \E i \in DOMAIN e.hints : e.hints[i] = s.id}
        usable == {s.c : s \in ngs} \cup {s.c : s \in infs}
        \* a scaffold of an optimisation proof does not show where the search started to assume
        \* "strictly better than the incumbent": its nogoods are consequences of the model plus the
        \* negated conclusion, which has no solutions; nothing semantic is left to check
        semantic == ~(mode = "scaffold" /\ obj.set)
    IN
    /\ Mon("C06.StepIdFresh", ~\E s \in allsteps : s.id = e.id, e.id)
    /\ Mon("C06.HintsKnown",
           \A i \in DOMAIN e.hints : \E s \in allsteps : s.id = e.hints[i] /\ (s.kind = "i" \/ s \in ngs),
           e)
    /\ Mon("C06.HintsOnlyWhenAsked", mode = "hints" \/ Len(e.hints) = 0, e)
    /\ Mon("C06.NogoodImpliedByModel", ~semantic \/ \A a \in sol : InBounds(a) => AnyTrue(e.lits, a),
           [step |-> e, counterexample |-> {a \in sol : InBounds(a) /\ ~AnyTrue(e.lits, a)}])
    /\ IF mode \in {"full", "hints"}
       THEN /\ Mon("C06.NogoodDerivable", RUP(vars, usable, e.lits), [step |-> e, usable |-> usable])
            \* informational: the hinted steps alone suffice (README: the hint is optional advice)
            /\ Mon("C06x.HintsSufficient", mode # "hints" \/ RUP(vars, {s.c : s \in hinted}, e.lits),
                   [step |-> e])
       ELSE TRUE
    /\ ngs' = ngs \cup {[id |-> e.id, c |-> e.lits, kind |-> "n"]}
    /\ allsteps' = allsteps \cup {[id |-> e.id, c |-> e.lits, kind |-> "n"]}
    /\ infs' = {}
    /\ lastNg' = e.lits
    /\ UNCHANGED <<scn, vars, cons, sol, obj, res, mode, bounds, concluded>>

TrDel(e) ==
    /\ Mon("C06.DeleteKnown", \E s \in ngs : s.id = e.id, e)
    /\ ngs' = {s \in ngs : s.id # e.id}
    /\ UNCHANGED <<scn, vars, cons, sol, obj, res, mode, infs, allsteps, bounds, lastNg, concluded>>

TrConcl(e) ==
    /\ Mon("C06.OneConclusion", ~concluded, e)
    /\ IF e.unsat THEN
          /\ Mon("C06.UnsatConclusionTrue", sol = {}, [solutions |-> Cardinality(sol)])
          /\ Mon("C06.UnsatPrecededByEmptyNogood", lastNg = <<>>, lastNg)
          /\ Mon("C06.ConclusionMatchesResult", res.res = "UNSAT", res)
       ELSE
          /\ Mon("C06.BoundIsOverObjective", obj.set /\ e.p.x.v = obj.x.v, [bound |-> e.p, objective |-> obj])
          \* a dual bound: no solution is better than the bound ...
          /\ Mon("C06.BoundIsDualBound", \A a \in sol : TrueP(e.p, a),
                 [bound |-> e.p, maximise |-> obj.max,
                  values |-> {ObjVal(a) : a \in sol}])
          \* ... and it is the optimum that was returned
          /\ Mon("C06.BoundIsTight", \E a \in sol : TrueP(e.p, a) /\ ~TrueP(e.p, [a EXCEPT ![e.p.x.v] =
                           IF e.p.op = "ge" THEN @ - 1 ELSE @ + 1]), e.p)
          /\ Mon("C06.ConclusionMatchesResult",
                 res.res = "OPTIMAL" /\ Len(res.sol) = Len(vars) /\ TrueP(e.p, res.sol)
                 /\ ~TrueP(e.p, [res.sol EXCEPT ![e.p.x.v] = IF e.p.op = "ge" THEN @ - 1 ELSE @ + 1]),
                 [bound |-> e.p, result |-> res])
          /\ IF mode \in {"full", "hints"}
             THEN Mon("C06.BoundDerivable",
                      RUP(vars, {s.c : s \in ngs} \cup {s.c : s \in infs}, <<e.p>>),
                      [bound |-> e.p, lastNogoodEmpty |-> (lastNg = <<>>),
                       inferencesAfterLastNogood |-> Cardinality(infs)])
             ELSE TRUE
    /\ concluded' = TRUE
    /\ UNCHANGED <<scn, vars, cons, sol, obj, res, mode, ngs, infs, allsteps, bounds, lastNg>>

Step(e) ==
    CASE e.e = "Reset" ->
            /\ scn' = <<e.fam, e.id>> /\ vars' = <<{1}>> /\ cons' = <<>> /\ sol' = {<<1>>}
            /\ obj' = NoObj /\ res' = NoRes /\ mode' = e.opts.proof /\ ngs' = {} /\ infs' = {}
            /\ allsteps' = {} /\ bounds' = {} /\ lastNg' = <<"none">> /\ concluded' = FALSE
      [] e.e = "NewVar" ->
            /\ e.v = Len(vars) + 1
            /\ vars' = Append(vars, {e.vals[i] : i \in DOMAIN e.vals})
            /\ sol' = {Append(a, e.vals[i]) : a \in sol, i \in DOMAIN e.vals}
            /\ UNCHANGED <<scn, cons, obj, res, mode, ngs, infs, allsteps, bounds, lastNg, concluded>>
      [] e.e = "Post" ->
            /\ cons' = Append(cons, [c |-> e.c, tag |-> e.tag])
            /\ sol' = {a \in sol : Holds(e.c, a)}
            /\ UNCHANGED <<scn, vars, obj, res, mode, ngs, infs, allsteps, bounds, lastNg, concluded>>
      [] e.e = "Call" ->
            /\ obj' = IF e.api = "optimise" THEN [set |-> TRUE, x |-> e.obj, max |-> e.maximise] ELSE NoObj
            /\ UNCHANGED <<scn, vars, cons, sol, res, mode, ngs, infs, allsteps, bounds, lastNg, concluded>>
      [] e.e = "Return" ->
            /\ res' = [res |-> e.res, sol |-> e.sol]
            /\ UNCHANGED <<scn, vars, cons, sol, obj, mode, ngs, infs, allsteps, bounds, lastNg, concluded>>
      [] e.e = "PInf" -> TrInf(e)
      [] e.e = "PNogood" -> TrNogood(e)
      [] e.e = "PDel" -> TrDel(e)
      [] e.e = "PConcl" -> TrConcl(e)
      [] e.e = "PUnknownCode" ->
            /\ Mon("C06.EveryCodeDefined", FALSE, e)
            /\ UNCHANGED <<scn, vars, cons, sol, obj, res, mode, ngs, infs, allsteps, bounds, lastNg, concluded>>
      [] e.e = "PMalformed" ->
            /\ Mon("C06.ProofFileWellFormed", FALSE, e)
            /\ UNCHANGED <<scn, vars, cons, sol, obj, res, mode, ngs, infs, allsteps, bounds, lastNg, concluded>>
      [] e.e = "PEnd" ->
            /\ Mon("C06.HasConclusion", concluded = (res.res \in {"UNSAT", "OPTIMAL"}),
                   [concluded |-> concluded, result |-> res.res])
            /\ UNCHANGED <<scn, vars, cons, sol, obj, res, mode, ngs, infs, allsteps, bounds, lastNg, concluded>>
      [] e.e = "Panic" ->
            /\ Mon("C06.NoPanic", FALSE, e)
            /\ UNCHANGED <<scn, vars, cons, sol, obj, res, mode, ngs, infs, allsteps, bounds, lastNg, concluded>>
      [] e.e = "Hang" ->
            /\ Mon("C06.NoHang", FALSE, e)
            /\ UNCHANGED <<scn, vars, cons, sol, obj, res, mode, ngs, infs, allsteps, bounds, lastNg, concluded>>
      [] OTHER ->
            /\ e.e \in {"PostEnd", "Callback", "Bounds", "LitValue"}
            /\ UNCHANGED <<scn, vars, cons, sol, obj, res, mode, ngs, infs, allsteps, bounds, lastNg, concluded>>

Next == l <= Len(Rec) /\ l' = l + 1 /\ Step(Rec[l])
Spec == Init /\ [][Next]_tvars

Accepted ==
    LET d == TLCGet("stats").diameter IN
    IF d - 1 = Len(Rec) THEN PrintT("ENDJ " \o ToJson([accepted |-> TRUE, events |-> Len(Rec), matched |-> d - 1]))
    ELSE Print("ENDJ " \o ToJson([accepted |-> FALSE, events |-> Len(Rec), matched |-> d - 1,
                                  unmatched |-> IF d <= Len(Rec) THEN ToString(Rec[d]) ELSE "?"]), FALSE)
=============================================================================
