------------------------------ MODULE MC_Engine ------------------------------
(***************************************************************************)
(* Model checking of the engine DESIGN: the same actions of Engine.tla that *)
(* Trace.tla binds to recorded executions (Decide, Propagate, EmptyDomain,  *)
(* Backtrack, NogoodAdded) are driven here by nondeterministic choices, for  *)
(* a small fixed model, under the ASSUMPTION that every propagation step is  *)
(* what property C17 demands of a propagator (the reason is true and is      *)
(* sufficient for the fact) and with the 1-UIP resolution of                *)
(* resolution_resolver.rs spelled out over the trail.                       *)
(*                                                                         *)
(* TLC then checks, over EVERY interleaving of decisions, propagations       *)
(* (any entailed fact, in any order, to any strength), conflicts, learning,  *)
(* backjumps and restarts:                                                   *)
(*   LearnedImplied   every learned nogood is implied by the model    (C02)  *)
(*   Asserting        it has exactly one predicate of the conflict level     *)
(*   TrailSound       whatever is on the trail follows from the decisions    *)
(*   AnswerRight      SAT: the assignment is a solution; UNSAT: none  (C01/2)*)
(*   Terminates       every behaviour ends in an answer (no restarts)  (C02) *)
(* i.e. "C17 for every step implies C01/C02 for every run" at the design     *)
(* level; C17 itself is what the trace validation checks on the real code.   *)
(***************************************************************************)
EXTENDS Engine

CONSTANTS MVars,      \* the declared domains, MVars[1] = {1}
          MCons,      \* the model
          MaxRestarts,
          SOUND       \* TRUE: propagators explain correctly (C17); FALSE: one of them may cite a
                      \* reason from which a fact (one predicate) is missing

VARIABLES rs,         \* rs[i]: the reason (a sequence of predicates) of trail entry i, <<>> for decisions
          learned,    \* the learned nogoods (sequences of predicates)
          status,     \* "search" | "conflict" | "SAT" | "UNSAT"
          confl,      \* the conflict nogood while status = "conflict"
          restarts

mcvars == <<evars, rs, learned, status, confl, restarts>>

V(v) == [v |-> v, s |-> 1, o |-> 0]
P(v, op, k) == [x |-> V(v), op |-> op, k |-> k]
UserVars == 2..Len(MVars)
\* the predicates a trail entry can be (never equalities), over the declared values
TrailPreds == UNION {{P(v, op, k) : op \in {"ge", "le", "ne"}, k \in MVars[v]} : v \in UserVars}
\* decisions: one trail entry each (an equality decision is two entries whose explanation is the
\* decision itself, an implicit-reason detail of the code that the trace validation covers)
DecisionPreds == TrailPreds

\* what the domains currently say about the variables in S, as a sequence of predicates: the
\* strongest reason any propagator could give
RECURSIVE SetToSeq(_)
SetToSeq(S) == IF S = {} THEN <<>> ELSE LET x == CHOOSE x \in S : TRUE IN <<x>> \o SetToSeq(S \ {x})
Facts(S) ==
    SetToSeq({p \in TrailPreds :
                /\ p.x.v \in S /\ dom[p.x.v] # {}
                /\ \/ p.op = "ge" /\ p.k = Min(dom[p.x.v]) /\ p.k > Min(vars[p.x.v])
                   \/ p.op = "le" /\ p.k = Max(dom[p.x.v]) /\ p.k < Max(vars[p.x.v])
                   \/ /\ p.op = "ne" /\ p.k \notin dom[p.x.v]
                      /\ p.k > Min(dom[p.x.v]) /\ p.k < Max(dom[p.x.v])})

MCInit ==
    /\ vars = MVars /\ lits = {} /\ cons = MCons
    /\ sol = {a \in Asgs(MVars) : \A i \in DOMAIN MCons : Holds(MCons[i], a)}
    /\ solx = sol
    /\ dom = MVars
    /\ trail = <<>> /\ level = 0 /\ life = "Solving"
    /\ propc = [i \in 1..(Len(MCons) + 1) |-> i - 1]     \* propagator i belongs to constraint i, 0 is the nogood propagator
    /\ db = <<>> /\ posting = 0 /\ call = NoCall /\ yielded = {} /\ lastB = <<>> /\ best = <<>>
    /\ hist = [lsu |-> FALSE, iter |-> FALSE]
    /\ rs = <<>> /\ learned = {} /\ status = "search" /\ confl = <<>> /\ restarts = 0

KeepMC == UNCHANGED <<learned, restarts>>

\* ---- a propagator of constraint i tightens a domain and explains it correctly (C17 assumed)
PropagateCons ==
    /\ status = "search"
    /\ \E i \in DOMAIN cons, p \in TrailPreds :
         LET R == Facts(Scope(cons[i])) IN
         /\ EvalNow(p) = "U"
         /\ Entails(vars, Fill, cons[i], R, p)
         /\ Propagate(i, p)
         /\ \/ rs' = Append(rs, R)
            \/ ~SOUND /\ i = 1 /\ R # <<>> /\ rs' = Append(rs, Tail(R))      \* a too-weak explanation
    /\ UNCHANGED <<status, confl>> /\ KeepMC

\* ---- unit propagation of a learned nogood
PropagateNogood ==
    /\ status = "search"
    /\ \E N \in learned, j \in 1..10 :
         /\ j \in DOMAIN N
         /\ EvalNow(N[j]) = "U"
         /\ \A k \in DOMAIN N : k # j => EvalNow(N[k]) = "T"
         /\ LET R == SelectSeq(N, LAMBDA q : q # N[j])
                np == Neg(N[j]) IN
            \* the negation of an equality is not a trail predicate; the engine posts it as such
            /\ np.op # "eq"
            /\ Propagate(0, np)
            /\ rs' = Append(rs, R)
    /\ UNCHANGED <<status, confl>> /\ KeepMC

\* ---- conflicts: a constraint without support in the current domains, or a violated nogood
ConflictCons ==
    /\ status = "search"
    /\ \E i \in DOMAIN cons :
         LET R == Facts(Scope(cons[i])) IN
         /\ Refutes(vars, Fill, cons[i], R)
         /\ confl' = R
    /\ status' = "conflict"
    /\ UNCHANGED <<evars, rs>> /\ KeepMC

ConflictNogood ==
    /\ status = "search"
    /\ \E N \in learned : AllTrueNow(N) /\ confl' = N
    /\ status' = "conflict"
    /\ UNCHANGED <<evars, rs>> /\ KeepMC

\* ---- 1-UIP resolution (resolution_resolver.rs): replace the predicate of the conflict level that
\* was set last by its reason until exactly one predicate of that level is left
LevelPreds(N) == {j \in DOMAIN N : LevelOf(N[j]) = level}
Dedup(N) == SetToSeq({N[j] : j \in DOMAIN N})
\* implicit reasoning (get_propagation_reason, cases 2a-2d): a predicate that is true because a
\* stronger fact was put on the trail is replaced by that fact: the bound / hole of its variable
\* right after the trail entry that made it true. Facts of the declared domains are dropped.
Canon(q) ==
    IF PosOf(q) <= 0 THEN {}
    ELSE LET D == trail[PosOf(q)].new  v == q.x.v IN
         IF q.op = "ge" \/ (q.op = "ne" /\ q.k < Min(D)) THEN {P(v, "ge", Min(D))}
         ELSE IF q.op = "le" \/ (q.op = "ne" /\ q.k > Max(D)) THEN {P(v, "le", Max(D))}
         ELSE {q}
Normal(N) == SetToSeq(UNION {Canon(N[j]) : j \in DOMAIN N})
RECURSIVE Resolve(_, _)
Resolve(N, fuel) ==
    IF Cardinality(LevelPreds(N)) <= 1 \/ fuel = 0 THEN N
    ELSE LET j == CHOOSE j \in LevelPreds(N) : \A k \in LevelPreds(N) : PosOf(N[k]) <= PosOf(N[j])
             pos == PosOf(N[j])
             rest == SelectSeq(N, LAMBDA q : q # N[j])
         IN  IF trail[pos].why # "prop" THEN N          \* cannot happen: the decision opens its level
             ELSE Resolve(Normal(rest \o rs[pos]), fuel - 1)

UIPFirst(N) ==       \* the asserting predicate first, as the code stores it
    LET j == CHOOSE j \in DOMAIN N : LevelOf(N[j]) = level
    IN  <<N[j]>> \o SelectSeq(N, LAMBDA q : q # N[j])
BackjumpLevel(N) == IF Len(N) = 1 THEN 0 ELSE Max({LevelOf(N[j]) : j \in 2..Len(N)})

Analyse ==
    /\ status = "conflict" /\ level > 0
    /\ LET N0 == Resolve(Normal(confl), 50)
           N == UIPFirst(N0)
           bj == BackjumpLevel(N)
           u == Undo(trail, dom, bj)
           np == Neg(N[1])
           st == PostPred(u.tr, u.d, np, bj, "prop", 0)
       IN  /\ learned' = learned \cup {N}
           /\ trail' = st.tr /\ dom' = st.d /\ level' = bj
           /\ rs' = SubSeq(rs, 1, Len(u.tr)) \o [k \in 1..(Len(st.tr) - Len(u.tr)) |-> Tail(N)]
           /\ status' = IF st.ok THEN "search" ELSE "conflict"
           /\ confl' = IF st.ok THEN <<>> ELSE N
    /\ UNCHANGED <<vars, lits, cons, sol, solx, life, propc, db, posting, call, yielded, lastB, best, hist>>
    /\ UNCHANGED restarts

RootConflict ==
    /\ status = "conflict" /\ level = 0
    /\ status' = "UNSAT"
    /\ UNCHANGED <<evars, rs, learned, confl, restarts>>

\* ---- decisions, solutions, restarts
\* (a propagator is run whenever one of its variables changed and reports a conflict as soon as
\* its constraint has no support left, so a detectable conflict is reported before the next decision)
ConflictDetectable ==
    \/ \E i \in DOMAIN cons : Refutes(vars, Fill, cons[i], Facts(Scope(cons[i])))
    \/ \E N \in learned : AllTrueNow(N)
MCDecide ==
    /\ status = "search" /\ ~ConflictDetectable
    /\ \E p \in DecisionPreds :
         /\ MonUndecided(p)
         /\ Decide(p)
         /\ rs' = rs \o [k \in 1..(Len(trail') - Len(trail)) |-> <<>>]
    /\ UNCHANGED <<status, confl>> /\ KeepMC

Solution ==
    /\ status = "search" /\ MonAllFixed
    /\ \A i \in DOMAIN cons : Holds(cons[i], CurrentAssignment)          \* otherwise a conflict is due
    /\ \A N \in learned : ~AllTrueNow(N)
    /\ status' = "SAT"
    /\ UNCHANGED <<evars, rs, learned, confl, restarts>>

Restart ==
    /\ status = "search" /\ level > 0 /\ restarts < MaxRestarts
    /\ Backtrack(0)
    /\ rs' = SubSeq(rs, 1, Len(trail'))
    /\ restarts' = restarts + 1
    /\ UNCHANGED <<learned, status, confl>>

MCNext == PropagateCons \/ PropagateNogood \/ ConflictCons \/ ConflictNogood \/ Analyse
          \/ RootConflict \/ MCDecide \/ Solution \/ Restart
MCSpec == MCInit /\ [][MCNext]_mcvars /\ WF_mcvars(MCNext)

\* ------------------------------------------------------------------ what TLC checks
LearnedImplied == \A N \in learned : NogoodImplied(sol, N)
AnswerRight ==
    /\ status = "SAT" => CurrentAssignment \in sol
    /\ status = "UNSAT" => sol = {}
\* every solution that agrees with the decisions on the trail agrees with the whole trail
Decisions == {i \in DOMAIN trail : trail[i].why = "dec"}
TrailSound ==
    \A a \in sol :
        (\A i \in Decisions : a[trail[i].v] \in trail[i].new)
            => \A i \in DOMAIN trail : trail[i].new = {} \/ a[trail[i].v] \in trail[i].new
ConflictIsTrue == status = "conflict" => AllTrueNow(confl)
ReasonsAligned == Len(rs) = Len(trail)
\* a decision is never taken on a decided predicate and a solution is only declared on total assignments
Terminates == <>(status \in {"SAT", "UNSAT"})

\* ------------------------------------------------------------------ the models of the configurations
\* x, y in 0..2, z in 0..1:  x # y,  x + y <= 2,  z = 1 -> x >= 1     (satisfiable)
ModelVars == <<{1}, 0..2, 0..2, 0..1>>
ModelCons == <<[k |-> "bin_ne", a |-> V(2), b |-> V(3)],
               [k |-> "lin_le", terms |-> <<V(2), V(3)>>, rhs |-> 2],
               [k |-> "imp", r |-> V(4), c |-> [k |-> "lin_le", terms |-> <<[v |-> 2, s |-> -1, o |-> 0]>>, rhs |-> -1]]>>
\* pigeon-hole: three pairwise different variables over two values     (unsatisfiable)
PigeonVars == <<{1}, 0..1, 0..1, 0..1>>
PigeonCons == <<[k |-> "bin_ne", a |-> V(2), b |-> V(3)],
                [k |-> "bin_ne", a |-> V(2), b |-> V(4)],
                [k |-> "bin_ne", a |-> V(3), b |-> V(4)]>>
==============================================================================
