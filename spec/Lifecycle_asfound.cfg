SPECIFICATION Spec
CONSTANT FIXED = FALSE
INVARIANT TypeOK
INVARIANT NoPanic
INVARIANT UsableBetweenCalls
CHECK_DEADLOCK FALSE
VIEW view
