-------------------------- MODULE TimeTableProofs --------------------------
(* TLAPS proof that the repaired protocol (FIXED) keeps the time-table of an incremental      *)
(* cumulative propagator behind a reification wrapper current - for ANY set of tasks, any      *)
(* number of decision levels, with and without incremental backtracking.  TLC checks the same  *)
(* statement for 2 tasks and 3 levels (TimeTable.cfg, TimeTable_incr.cfg) and shows that the   *)
(* as-found rule violates it (TimeTable_asfound.cfg).                                          *)
(*   check:  tlapm --threads 8 TimeTableProofs.tla                                             *)
EXTENDS TimeTable, TLAPS

ASSUME FixedAssumption == FIXED = TRUE
ASSUME ConstAssumption == MaxLevel \in Nat /\ INCR \in BOOLEAN

IndInv == /\ TypeOK
          /\ remP \subseteq table
          /\ Tracked
          /\ Current

LEMMA NoneNotLevel == NONE \notin Level /\ NONE \in Nat
  BY ConstAssumption DEF NONE, Level

THEOREM InitInv == Init => IndInv
  <1> SUFFICES ASSUME Init PROVE IndInv
    OBVIOUS
  <1>1. TypeOK
    BY ConstAssumption DEF Init, TypeOK, Level, NONE
  <1>2. remP \subseteq table
    BY DEF Init
  <1>3. Mandatory = {}
    BY DEF Init, Mandatory
  <1>4. Tracked
    BY <1>3 DEF Init, Tracked
  <1>5. Current
    BY DEF Init, Current
  <1> QED BY <1>1, <1>2, <1>4, <1>5 DEF IndInv

LEMMA FixTaskInv ==
  ASSUME IndInv, NEW t \in Tasks, NEW n \in BOOLEAN, FixTask(t, n)
  PROVE IndInv'
  <1> USE FixedAssumption, ConstAssumption, NoneNotLevel
  <1>0. lvl' \in Level
    BY DEF FixTask, IndInv, TypeOK, Level
  <1>1. TypeOK'
    BY <1>0 DEF FixTask, Notify, IndInv, TypeOK, LitTrue
  <1>2. Mandatory' = Mandatory \cup {t}
    BY <1>0 DEF FixTask, Mandatory, IndInv, TypeOK
  <1>3. (remP \subseteq table)'
    BY DEF FixTask, Notify, IndInv
  <1>4. Tracked'
    BY <1>2 DEF FixTask, Notify, IndInv, Tracked
  <1>5. Current'
    BY DEF FixTask, Current
  <1> QED BY <1>1, <1>3, <1>4, <1>5 DEF IndInv

LEMMA SetLitInv ==
  ASSUME IndInv, NEW b \in BOOLEAN, NEW n \in BOOLEAN, SetLit(b, n)
  PROVE IndInv'
  <1> USE FixedAssumption, ConstAssumption, NoneNotLevel
  <1>0. lvl' \in Level
    BY DEF SetLit, IndInv, TypeOK, Level
  <1>1. TypeOK'
    BY <1>0 DEF SetLit, IndInv, TypeOK
  <1>2. Mandatory' = Mandatory
    BY DEF SetLit, Mandatory
  <1>3. Tracked' /\ (remP \subseteq table)'
    BY <1>2 DEF SetLit, IndInv, Tracked
  <1>4. Current'
    BY DEF SetLit, Current
  <1> QED BY <1>1, <1>3, <1>4 DEF IndInv

LEMMA PropagateInv ==
  ASSUME IndInv, Propagate
  PROVE IndInv'
  <1> USE FixedAssumption, ConstAssumption
  <1>1. Mandatory' = Mandatory
    BY DEF Propagate, Mandatory
  <1>2. CASE LitTrue
    <2>1. table' = Mandatory
      BY <1>2 DEF Propagate, IndInv, Tracked
    <2>2. addP' = {} /\ remP' = {} /\ outdated' = FALSE /\ justProp' = TRUE /\ enq' = FALSE
      BY <1>2 DEF Propagate
    <2>3. TypeOK'
      BY <2>1, <2>2 DEF Propagate, IndInv, TypeOK, Mandatory
    <2> QED BY <1>1, <2>1, <2>2, <2>3 DEF IndInv, Tracked, Current
  <1>3. CASE ~LitTrue
    <2>1. UNCHANGED <<table, addP, remP, outdated>> /\ justProp' = FALSE /\ enq' = FALSE
      BY <1>3 DEF Propagate
    <2>2. TypeOK'
      BY <2>1 DEF Propagate, IndInv, TypeOK
    <2> QED BY <1>1, <2>1, <2>2 DEF IndInv, Tracked, Current
  <1> QED BY <1>2, <1>3

LEMMA BacktrackInv ==
  ASSUME IndInv, NEW k \in Level, Backtrack(k)
  PROVE IndInv'
  <1> USE FixedAssumption, ConstAssumption, NoneNotLevel
  <1> DEFINE undone == {t \in Tasks : fixedAt[t] # NONE /\ fixedAt[t] > k}
  <1>1. fixedAt' = [t \in Tasks |-> IF t \in undone THEN NONE ELSE fixedAt[t]]
    BY DEF Backtrack
  <1>2. Mandatory' = Mandatory \ undone
    BY <1>1 DEF Mandatory
  <1>3. TypeOK'
    <2>1. fixedAt' \in [Tasks -> Level \cup {NONE}]
      BY <1>1 DEF IndInv, TypeOK
    <2>2. lvl' \in Level /\ table' = table /\ enq' = FALSE /\ justProp' = FALSE
      BY DEF Backtrack
    <2>3. litAt' \in Level \cup {NONE} /\ litVal' \in BOOLEAN
      BY DEF Backtrack, IndInv, TypeOK
    <2>4. addP' \subseteq Tasks /\ remP' \subseteq Tasks /\ outdated' \in BOOLEAN
      BY DEF Backtrack, IndInv, TypeOK, SyncOutdated
    <2> QED BY <2>1, <2>2, <2>3, <2>4 DEF IndInv, TypeOK
  <1>4. CASE INCR
    <2>1. addP' = addP \ undone /\ remP' = remP \cup (undone \cap table) /\ outdated' = outdated /\ table' = table
      BY <1>4 DEF Backtrack
    <2>2. (remP \subseteq table)'
      BY <2>1 DEF IndInv
    <2>3. Tracked'
      BY <2>1, <1>2 DEF IndInv, Tracked
    <2> QED BY <1>3, <2>2, <2>3 DEF IndInv, Current, Backtrack
  <1>5. CASE ~INCR
    <2>1. /\ addP' = {} /\ remP' = {} /\ table' = table
          /\ outdated' = SyncOutdated(FIXED, outdated, table = {}, addP # {} \/ remP # {})
      BY <1>5 DEF Backtrack
    <2>2. (remP \subseteq table)'
      BY <2>1
    <2>3. Tracked'
      <3>1. CASE outdated'
        BY <3>1 DEF Tracked
      <3>2. CASE ~outdated'
        <4>1. ~outdated /\ table = {} /\ addP = {} /\ remP = {}
          BY <3>2, <2>1 DEF SyncOutdated
        <4>2. Mandatory = {}
          BY <4>1 DEF IndInv, Tracked
        <4> QED BY <4>1, <4>2, <2>1, <1>2 DEF Tracked
      <3> QED BY <3>1, <3>2
    <2> QED BY <1>3, <2>2, <2>3 DEF IndInv, Current, Backtrack
  <1> QED BY <1>4, <1>5

THEOREM StepInv == IndInv /\ [Next]_vars => IndInv'
  <1> SUFFICES ASSUME IndInv, [Next]_vars PROVE IndInv'
    OBVIOUS
  <1>1. CASE UNCHANGED vars
    BY <1>1 DEF vars, IndInv, TypeOK, Tracked, Current, Mandatory
  <1>2. CASE \E t \in Tasks, n \in BOOLEAN : FixTask(t, n)
    BY <1>2, FixTaskInv
  <1>3. CASE \E b \in BOOLEAN, n \in BOOLEAN : SetLit(b, n)
    BY <1>3, SetLitInv
  <1>4. CASE Propagate
    BY <1>4, PropagateInv
  <1>5. CASE \E k \in Level : Backtrack(k)
    BY <1>5, BacktrackInv
  <1> QED BY <1>1, <1>2, <1>3, <1>4, <1>5 DEF Next

THEOREM Safety == Spec => []Current
  <1>1. Spec => []IndInv
    BY InitInv, StepInv, PTL DEF Spec
  <1>2. IndInv => Current
    BY DEF IndInv
  <1> QED BY <1>1, <1>2, PTL
=============================================================================
