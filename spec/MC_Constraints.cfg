INIT Init
NEXT Next
