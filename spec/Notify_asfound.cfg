SPECIFICATION Spec
CONSTANTS
  Props = {p1, p2}
  MaxTrail = 4
  FIXED = FALSE
INVARIANT TypeOK
INVARIANT NoStaleNotification
INVARIANT NothingMissed
CHECK_DEADLOCK FALSE
