SPECIFICATION TSpec
CONSTANT FIXED = TRUE
INVARIANT NotAllConsumed
VIEW tview
CHECK_DEADLOCK FALSE
