---------------------------- MODULE Constraints ----------------------------
(***************************************************************************)
(* The denotational layer: what every Pumpkin constraint MEANS, written     *)
(* from the documented meaning and never from a propagator.  Everything in  *)
(* here is constant-level; it is the oracle every other module refers to.   *)
(*                                                                         *)
(* Variables are numbered 1..n; variable 1 is the solver's dummy variable   *)
(* (fixed to 1).  An assignment is a sequence of integers.                  *)
(*   View  == [v : Nat, s : Int, o : Int]        denotes  s * x_v + o        *)
(*   Pred  == [x : View, op : {"ge","le","ne","eq"}, k : Int]               *)
(*   Cons  == a record whose field k names the constraint kind              *)
(***************************************************************************)
EXTENDS Integers, Sequences, FiniteSets

Min(S) == CHOOSE x \in S : \A y \in S : x <= y
Max(S) == CHOOSE x \in S : \A y \in S : x >= y
Abs(x) == IF x < 0 THEN -x ELSE x
Range(f) == {f[i] : i \in DOMAIN f}

\* truncating division (Rust's `/` on integers), defined for d # 0
TruncDiv(n, d) ==
    LET q == Abs(n) \div Abs(d)
    IN  IF (n < 0) # (d < 0) THEN -q ELSE q

\* ------------------------------------------------------------ views, predicates
Val(x, a) == x.s * a[x.v] + x.o

OpHolds(op, y, k) ==
    CASE op = "ge" -> y >= k
      [] op = "le" -> y <= k
      [] op = "ne" -> y # k
      [] op = "eq" -> y = k

TrueP(p, a) == OpHolds(p.op, Val(p.x, a), p.k)
AllTrue(P, a) == \A i \in DOMAIN P : TrueP(P[i], a)        \* P is a sequence of predicates
AnyTrue(P, a) == \E i \in DOMAIN P : TrueP(P[i], a)

\* value-level truth of a predicate for one value of its variable
TrueOnVal(p, xv) == OpHolds(p.op, p.x.s * xv + p.x.o, p.k)
\* three-valued evaluation against a domain (a set of values of variable p.x.v)
Eval(p, D) ==
    IF \A xv \in D : TrueOnVal(p, xv) THEN "T"
    ELSE IF \A xv \in D : ~TrueOnVal(p, xv) THEN "F" ELSE "U"

NegOp(op) == CASE op = "ge" -> "lt" [] op = "le" -> "gt" [] op = "ne" -> "eq" [] op = "eq" -> "ne"
Neg(p) ==
    CASE p.op = "ge" -> [p EXCEPT !.op = "le", !.k = p.k - 1]
      [] p.op = "le" -> [p EXCEPT !.op = "ge", !.k = p.k + 1]
      [] p.op = "ne" -> [p EXCEPT !.op = "eq"]
      [] p.op = "eq" -> [p EXCEPT !.op = "ne"]

IsLit(x, a) == Val(x, a) >= 1          \* a 0/1 view read as a literal

\* ------------------------------------------------------------ sums
SumViews(ts, a) ==
    LET S[i \in 0..Len(ts)] == IF i = 0 THEN 0 ELSE S[i-1] + Val(ts[i], a)
    IN  S[Len(ts)]

SumWeighted(ws, bs, a) ==
    LET S[i \in 0..Len(bs)] == IF i = 0 THEN 0 ELSE S[i-1] + ws[i] * Val(bs[i], a)
    IN  S[Len(bs)]

\* resource usage at time t of the tasks running at t
UsageAt(c, a, t) ==
    LET S[i \in 0..Len(c.s)] ==
          IF i = 0 THEN 0
          ELSE S[i-1] + (IF Val(c.s[i], a) <= t /\ t < Val(c.s[i], a) + c.d[i] THEN c.r[i] ELSE 0)
    IN  S[Len(c.s)]

\* ------------------------------------------------------------ Holds
RECURSIVE Holds(_, _)
Holds(c, a) ==
    CASE c.k = "lin_le" -> SumViews(c.terms, a) <= c.rhs
      [] c.k = "lin_eq" -> SumViews(c.terms, a) = c.rhs
      [] c.k = "lin_ne" -> SumViews(c.terms, a) # c.rhs
      [] c.k = "bin_le" -> Val(c.a, a) <= Val(c.b, a)
      [] c.k = "bin_lt" -> Val(c.a, a) < Val(c.b, a)
      [] c.k = "bin_eq" -> Val(c.a, a) = Val(c.b, a)
      [] c.k = "bin_ne" -> Val(c.a, a) # Val(c.b, a)
      [] c.k = "plus"   -> Val(c.a, a) + Val(c.b, a) = Val(c.c, a)
      [] c.k = "times"  -> Val(c.a, a) * Val(c.b, a) = Val(c.c, a)
      [] c.k = "div"    -> Val(c.b, a) # 0 /\ TruncDiv(Val(c.a, a), Val(c.b, a)) = Val(c.c, a)
      [] c.k = "abs"    -> Abs(Val(c.a, a)) = Val(c.b, a)
      [] c.k = "max"    -> /\ \A i \in DOMAIN c.xs : Val(c.xs[i], a) <= Val(c.y, a)
                           /\ \E i \in DOMAIN c.xs : Val(c.xs[i], a) = Val(c.y, a)
      [] c.k = "min"    -> /\ \A i \in DOMAIN c.xs : Val(c.xs[i], a) >= Val(c.y, a)
                           /\ \E i \in DOMAIN c.xs : Val(c.xs[i], a) = Val(c.y, a)
      [] c.k = "element" -> LET i == Val(c.idx, a)                       \* 0-based index
                            IN  i >= 0 /\ i < Len(c.xs) /\ Val(c.xs[i+1], a) = Val(c.y, a)
      [] c.k = "alldiff" -> \A i, j \in DOMAIN c.xs : i < j => Val(c.xs[i], a) # Val(c.xs[j], a)
      [] c.k = "cumulative" ->
            \A i \in DOMAIN c.s :                   \* usage can only exceed at some task's start
                c.d[i] > 0 => UsageAt(c, a, Val(c.s[i], a)) <= c.cap
      [] c.k = "bool_lin_le" -> SumWeighted(c.ws, c.bs, a) <= c.rhs
      [] c.k = "bool_lin_eq" -> SumWeighted(c.ws, c.bs, a) = Val(c.y, a)
      [] c.k = "clause"     -> AnyTrue(c.ps, a)
      [] c.k = "lit_clause" -> \E i \in DOMAIN c.ls : IsLit(c.ls[i], a)
      [] c.k = "lit_conj"   -> \A i \in DOMAIN c.ls : IsLit(c.ls[i], a)
      [] c.k = "imp"  -> ~IsLit(c.r, a) \/ Holds(c.c, a)
      [] c.k = "reif" -> IsLit(c.r, a) <=> Holds(c.c, a)
      [] c.k = "neg"  -> ~Holds(c.c, a)
      [] c.k = "lit_pred" -> IsLit(c.l, a) <=> TrueP(c.p, a)

\* second, differently written definition of the cumulative meaning (all time points); used by
\* MC_Constraints to cross-check the one above
CumulativeAllPoints(c, a) ==
    LET starts == {Val(c.s[i], a) : i \in DOMAIN c.s}
        ends   == {Val(c.s[i], a) + c.d[i] : i \in DOMAIN c.s}
    IN  IF DOMAIN c.s = {} THEN TRUE
        ELSE \A t \in Min(starts)..Max(ends) : UsageAt(c, a, t) <= c.cap

\* second definition of truncating division: q = trunc(n/d) iff |q*d| <= |n| < |q*d| + |d| and signs fit
TruncDivRel(n, d, q) ==
    /\ d # 0
    /\ Abs(q * d) <= Abs(n) /\ Abs(n) < Abs(q * d) + Abs(d)
    /\ (q # 0 => ((q > 0) <=> ((n > 0) = (d > 0))))
    /\ (q = 0 => Abs(n) < Abs(d))

\* ------------------------------------------------------------ scopes
ViewVars(xs) == {xs[i].v : i \in DOMAIN xs}
PredVars(ps) == {ps[i].x.v : i \in DOMAIN ps}

RECURSIVE Scope(_)
Scope(c) ==
    CASE c.k \in {"lin_le", "lin_eq", "lin_ne"} -> ViewVars(c.terms)
      [] c.k \in {"bin_le", "bin_lt", "bin_eq", "bin_ne", "abs"} -> {c.a.v, c.b.v}
      [] c.k \in {"plus", "times", "div"} -> {c.a.v, c.b.v, c.c.v}
      [] c.k \in {"max", "min"} -> ViewVars(c.xs) \cup {c.y.v}
      [] c.k = "element" -> ViewVars(c.xs) \cup {c.y.v, c.idx.v}
      [] c.k = "alldiff" -> ViewVars(c.xs)
      [] c.k = "cumulative" -> ViewVars(c.s)
      [] c.k = "bool_lin_le" -> ViewVars(c.bs)
      [] c.k = "bool_lin_eq" -> ViewVars(c.bs) \cup {c.y.v}
      [] c.k = "clause" -> PredVars(c.ps)
      [] c.k \in {"lit_clause", "lit_conj"} -> ViewVars(c.ls)
      [] c.k \in {"imp", "reif"} -> {c.r.v} \cup Scope(c.c)
      [] c.k = "neg" -> Scope(c.c)
      [] c.k = "lit_pred" -> {c.l.v, c.p.x.v}

\* ------------------------------------------------------------ assignments over domains
\* all total assignments over the domains doms (a sequence of sets), as sequences
RECURSIVE AsgsUpTo(_, _)
AsgsUpTo(doms, n) ==
    IF n = 0 THEN {<<>>}
    ELSE {Append(a, xv) : a \in AsgsUpTo(doms, n - 1), xv \in doms[n]}
Asgs(doms) == AsgsUpTo(doms, Len(doms))

\* assignments that range over the domains on the variables in S only; the other variables get
\* the fixed filler value `fill[v]` (their value is irrelevant for whoever asks)
ScopeAsgs(doms, S, fill) ==
    LET n == Len(doms)
        restricted == [v \in 1..n |-> IF v \in S THEN doms[v] ELSE {fill[v]}]
    IN  Asgs(restricted)

\* Entailment of a conclusion from one constraint plus a reason, over the given (initial) domains
\* of the variables involved: every assignment that satisfies c and all of R satisfies p.
Entails(doms, fill, c, R, p) ==
    \A a \in ScopeAsgs(doms, Scope(c) \cup PredVars(R) \cup {p.x.v}, fill) :
        (Holds(c, a) /\ AllTrue(R, a)) => TrueP(p, a)

\* no assignment satisfies c and all of N
Refutes(doms, fill, c, N) ==
    \A a \in ScopeAsgs(doms, Scope(c) \cup PredVars(N), fill) :
        ~(Holds(c, a) /\ AllTrue(N, a))

\* pure domain reasoning: R implies p on the initial domains (no constraint involved)
DomainEntails(doms, fill, R, p) ==
    \A a \in ScopeAsgs(doms, PredVars(R) \cup {p.x.v}, fill) : AllTrue(R, a) => TrueP(p, a)

\* the nogood N (a conjunction that must not hold) is implied by a set S of solutions
NogoodImplied(S, N) == \A a \in S : ~AllTrue(N, a)
=============================================================================
