------------------------------- MODULE Dimacs -------------------------------
(***************************************************************************)
(* The byte-level DIMACS parser of the command-line solver                  *)
(* (src/bin/pumpkin-solver/parsers/dimacs.rs: DimacsParser::parse_chunk,    *)
(* six states) transcribed byte by byte, run in lock-step with an           *)
(* independently written REFERENCE reading of the same bytes (line based:   *)
(* comment lines vanish, the rest is a whitespace separated token stream    *)
(* in which 0 ends a clause).                                               *)
(*                                                                         *)
(* The body of a file (everything after the `p cnf` line) is produced one   *)
(* byte at a time; property C14 (layout independence) is the invariant      *)
(* that at every point "end of file now" gives the same answer in both:     *)
(* the same clause list, or an error in both.                               *)
(*                                                                         *)
(* Bytes are one-character strings; digits are "0".."9"; WS is the set of   *)
(* ASCII whitespace bytes other than the newline.                           *)
(***************************************************************************)
EXTENDS Integers, Sequences, FiniteSets, TLC

CONSTANTS Bytes,        \* the alphabet the input is drawn from
          MaxClauses, MaxLits, MaxDigits,   \* bounds that keep the state space finite
          FIXED,        \* TRUE: with the fix of finding F22 (newline directly after a literal)
          TrackInput    \* keep the bytes produced so far (generator) or not (model checking)

VARIABLES
    \* ---- the implementation's parser
    st,        \* "StartLine" | "Comment" | "Literal" | "NegativeLiteral" | "Clause" | "Error"
    buf,       \* the literal being read (a sequence of bytes)
    clause,    \* the literals of the clause being read (sequences of bytes)
    clauses,   \* the finished clauses
    \* ---- the reference reading
    line,      \* kind of the current line: "start" | "comment" | "body"
    rtok,      \* the token being read
    rtoks,     \* the literals of the clause being read
    rclauses,  \* the finished clauses of the reference
    rerr,      \* the reference has seen a malformed token
    \* ---- bookkeeping
    input      \* the bytes produced so far (for the generator / counterexamples only)

vars == <<st, buf, clause, clauses, line, rtok, rtoks, rclauses, rerr, input>>

Digits == {"0", "1", "2", "3", "4", "5", "6", "7", "8", "9"}
NonZeroDigits == Digits \ {"0"}
IsWs(b) == b \in {" ", "\t", "\r", "\n"}

Init ==
    /\ st = "StartLine" /\ buf = <<>> /\ clause = <<>> /\ clauses = <<>>
    /\ line = "start" /\ rtok = <<>> /\ rtoks = <<>> /\ rclauses = <<>> /\ rerr = FALSE
    /\ input = <<>>

\* ------------------------------------------------------------------ the implementation
FinishClause == /\ clauses' = Append(clauses, clause) /\ clause' = <<>>
StartLiteral(b, positive) ==
    /\ st' = IF positive THEN "Literal" ELSE "NegativeLiteral"
    /\ buf' = <<b>>

ImplStep(b) ==
    CASE st = "StartLine" ->
            IF IsWs(b) THEN UNCHANGED <<st, buf, clause, clauses>>
            ELSE IF b = "c" THEN st' = "Comment" /\ UNCHANGED <<buf, clause, clauses>>
            ELSE IF b \in NonZeroDigits THEN StartLiteral(b, TRUE) /\ UNCHANGED <<clause, clauses>>
            ELSE IF b = "0" THEN FinishClause /\ UNCHANGED <<st, buf>>      \* "exotic" empty clause
            ELSE IF b = "-" THEN StartLiteral(b, FALSE) /\ UNCHANGED <<clause, clauses>>
            ELSE st' = "Error" /\ UNCHANGED <<buf, clause, clauses>>
      [] st = "Comment" ->
            /\ st' = IF b = "\n" THEN "StartLine" ELSE "Comment"
            /\ UNCHANGED <<buf, clause, clauses>>
      [] st = "Literal" ->
            IF IsWs(b)
            THEN /\ clause' = Append(clause, buf)                  \* finish_literal
                 \* as found the state becomes Clause even when the whitespace is the newline, so
                 \* that a comment line that follows is an "unexpected character"
                 /\ st' = IF FIXED /\ b = "\n" THEN "StartLine" ELSE "Clause"
                 /\ UNCHANGED <<buf, clauses>>
            ELSE IF b \in Digits THEN buf' = Append(buf, b) /\ UNCHANGED <<st, clause, clauses>>
            ELSE st' = "Error" /\ UNCHANGED <<buf, clause, clauses>>
      [] st = "NegativeLiteral" ->
            IF b \in NonZeroDigits
            THEN buf' = Append(buf, b) /\ st' = "Literal" /\ UNCHANGED <<clause, clauses>>
            ELSE st' = "Error" /\ UNCHANGED <<buf, clause, clauses>>
      [] st = "Clause" ->
            IF b = "0" THEN FinishClause /\ UNCHANGED <<st, buf>>
            ELSE IF b = "\n" THEN st' = "StartLine" /\ UNCHANGED <<buf, clause, clauses>>
            ELSE IF IsWs(b) THEN UNCHANGED <<st, buf, clause, clauses>>
            ELSE IF b \in NonZeroDigits THEN StartLiteral(b, TRUE) /\ UNCHANGED <<clause, clauses>>
            ELSE IF b = "-" THEN StartLiteral(b, FALSE) /\ UNCHANGED <<clause, clauses>>
            ELSE st' = "Error" /\ UNCHANGED <<buf, clause, clauses>>
      [] st = "Error" -> UNCHANGED <<st, buf, clause, clauses>>

\* DimacsParser::complete (ignoring the clause count of the header, which the generator sets right)
ImplResult ==
    IF st = "Error" THEN [err |-> TRUE, cls |-> <<>>]
    ELSE IF clause # <<>> THEN [err |-> TRUE, cls |-> <<>>]          \* UnterminatedClause
    ELSE [err |-> FALSE, cls |-> clauses]

\* ------------------------------------------------------------------ the reference
\* The reference reads LINES: the first non-whitespace byte of a line decides whether the line is a
\* comment (it then vanishes up to the newline); every other line contributes its whitespace
\* separated tokens to one token stream in which the token 0 ends a clause.
\*   line : "start" (only whitespace so far) | "comment" | "body"
\*   rtok : the bytes of the token being read

\* a well-formed token: 0, or an optional minus sign, a non-zero digit and more digits
GoodTok(t) ==
    \/ t = <<"0">>
    \/ /\ Len(t) >= 1 /\ t[1] \in NonZeroDigits /\ \A i \in 2..Len(t) : t[i] \in Digits
    \/ /\ Len(t) >= 2 /\ t[1] = "-" /\ t[2] \in NonZeroDigits /\ \A i \in 3..Len(t) : t[i] \in Digits

\* the token stream after one more (complete) token
AddTok(t, st0) ==
    IF t = <<>> THEN st0
    ELSE IF ~GoodTok(t) THEN [st0 EXCEPT !.err = TRUE]
    ELSE IF t = <<"0">> THEN [st0 EXCEPT !.cls = Append(st0.cls, st0.open), !.open = <<>>]
    ELSE [st0 EXCEPT !.open = Append(st0.open, t)]

RefState == [err |-> rerr, cls |-> rclauses, open |-> rtoks]

RefStep(b) ==
    IF line = "comment"
    THEN /\ line' = IF b = "\n" THEN "start" ELSE "comment"
         /\ UNCHANGED <<rtok, rtoks, rclauses, rerr>>
    ELSE IF IsWs(b)
    THEN LET n == AddTok(rtok, RefState) IN
         /\ rtok' = <<>> /\ rerr' = n.err /\ rclauses' = n.cls /\ rtoks' = n.open
         /\ line' = IF b = "\n" THEN "start" ELSE line
    ELSE IF line = "start" /\ b = "c"
    THEN line' = "comment" /\ UNCHANGED <<rtok, rtoks, rclauses, rerr>>
    ELSE /\ line' = "body" /\ rtok' = Append(rtok, b)
         /\ UNCHANGED <<rtoks, rclauses, rerr>>

\* the answer of the reference if the file ended here (the last line need not end with a newline)
RefResult ==
    LET n == IF line = "comment" THEN RefState ELSE AddTok(rtok, RefState)
    IN  IF n.err \/ n.open # <<>> THEN [err |-> TRUE, cls |-> <<>>]
        ELSE [err |-> FALSE, cls |-> n.cls]

\* ------------------------------------------------------------------ lock-step
Feed(b) ==
    /\ ImplStep(b)
    /\ RefStep(b)
    /\ input' = IF TrackInput THEN Append(input, b) ELSE <<>>

Next == \E b \in Bytes : Feed(b)

\* bounds (CONSTRAINT)
Bounded ==
    /\ Len(clauses) <= MaxClauses /\ Len(rclauses) <= MaxClauses
    /\ Len(clause) <= MaxLits /\ Len(rtoks) <= MaxLits
    /\ Len(buf) <= MaxDigits + 1 /\ Len(rtok) <= MaxDigits + 1
    /\ ~rerr      \* once the reference has seen a malformed token the file is not well-formed any more
                  \* (st = "Error" must NOT be cut: TLC does not check invariants on states a
                  \* CONSTRAINT rejects, and an implementation error on a well-formed file is the bug)

\* ------------------------------------------------------------------ property C14 (layouts)
\* If the file ended now and it is well-formed (the reference reads it without error), the
\* implementation reads the same clause list.  (What the implementation does with malformed files
\* is not constrained by the property.)
SameReading == ~RefResult.err => ImplResult = RefResult
=============================================================================
