---- MODULE MC_DrcpFormat_TTrace_1790989086 ----
EXTENDS Sequences, TLCExt, Toolbox, Naturals, TLC, MC_DrcpFormat

_expression ==
    LET MC_DrcpFormat_TEExpression == INSTANCE MC_DrcpFormat_TEExpression
    IN MC_DrcpFormat_TEExpression!expression
----

_trace ==
    LET MC_DrcpFormat_TETrace == INSTANCE MC_DrcpFormat_TETrace
    IN MC_DrcpFormat_TETrace!trace
----

_inv ==
    ~(
        TLCGet("level") = Len(_TETrace)
        /\
        h = (<<[c |-> "nogood", lits |-> <<>>, hints |-> <<>>]>>)
    )
----

_init ==
    /\ h = _TETrace[1].h
----

_next ==
    /\ \E i,j \in DOMAIN _TETrace:
        /\ \/ /\ j = i + 1
              /\ i = TLCGet("level")
        /\ h  = _TETrace[i].h
        /\ h' = _TETrace[j].h

\* Uncomment the ASSUME below to write the states of the error trace
\* to the given file in Json format. Note that you can pass any tuple
\* to `JsonSerialize`. For example, a sub-sequence of _TETrace.
    \* ASSUME
    \*     LET J == INSTANCE Json
    \*         IN J!JsonSerialize("MC_DrcpFormat_TTrace_1790989086.json", _TETrace)

=============================================================================

 Note that you can extract this module `MC_DrcpFormat_TEExpression`
  to a dedicated file to reuse `expression` (the module in the 
  dedicated `MC_DrcpFormat_TEExpression.tla` file takes precedence 
  over the module `MC_DrcpFormat_TEExpression` below).

---- MODULE MC_DrcpFormat_TEExpression ----
EXTENDS Sequences, TLCExt, Toolbox, Naturals, TLC, MC_DrcpFormat

expression == 
    [
        \* To hide variables of the `MC_DrcpFormat` spec from the error trace,
        \* remove the variables below.  The trace will be written in the order
        \* of the fields of this record.
        h |-> h
        
        \* Put additional constant-, state-, and action-level expressions here:
        \* ,_stateNumber |-> _TEPosition
        \* ,_hUnchanged |-> h = h'
        
        \* Format the `h` variable as Json value.
        \* ,_hJson |->
        \*     LET J == INSTANCE Json
        \*     IN J!ToJson(h)
        
        \* Lastly, you may build expressions over arbitrary sets of states by
        \* leveraging the _TETrace operator.  For example, this is how to
        \* count the number of times a spec variable changed up to the current
        \* state in the trace.
        \* ,_hModCount |->
        \*     LET F[s \in DOMAIN _TETrace] ==
        \*         IF s = 1 THEN 0
        \*         ELSE IF _TETrace[s].h # _TETrace[s-1].h
        \*             THEN 1 + F[s-1] ELSE F[s-1]
        \*     IN F[_TEPosition - 1]
    ]

=============================================================================



Parsing and semantic processing can take forever if the trace below is long.
 In this case, it is advised to uncomment the module below to deserialize the
 trace from a generated binary file.

\*
\*---- MODULE MC_DrcpFormat_TETrace ----
\*EXTENDS IOUtils, TLC, MC_DrcpFormat
\*
\*trace == IODeserialize("MC_DrcpFormat_TTrace_1790989086.bin", TRUE)
\*
\*=============================================================================
\*

---- MODULE MC_DrcpFormat_TETrace ----
EXTENDS TLC, MC_DrcpFormat

trace == 
    <<
    ([h |-> <<>>]),
    ([h |-> <<[c |-> "nogood", lits |-> <<>>, hints |-> <<>>]>>])
    >>
----


=============================================================================

---- CONFIG MC_DrcpFormat_TTrace_1790989086 ----
CONSTANTS
    Lits <- MCLits
    Ids <- MCIds
    Tags <- MCTags
    Labels <- MCLabels
    FIXED = FALSE
    Depth = 1
    Reduced = FALSE

INVARIANT
    _inv

CHECK_DEADLOCK
    \* CHECK_DEADLOCK off because of PROPERTY or INVARIANT above.
    FALSE

INIT
    _init

NEXT
    _next

CONSTANT
    _TETrace <- _trace

ALIAS
    _expression
=============================================================================
\* Generated on Sat Oct 03 00:58:07 UTC 2026