------------------------------- MODULE MC_Drcp -------------------------------
(* Self-check of the reverse-propagation checker of Drcp.tla on a small universe: whatever RUP  *)
(* accepts is semantically implied by the clauses it used (soundness of the checker itself),    *)
(* and unit consequences are found (it is not vacuous).                                         *)
EXTENDS Drcp, TLC
V(v) == [v |-> v, s |-> 1, o |-> 0]
P(v, op, k) == [x |-> V(v), op |-> op, k |-> k]
Doms == <<{1}, 0..2, 0..2>>
Preds == {P(v, op, k) : v \in 2..3, op \in {"ge", "le", "eq", "ne"}, k \in 0..2}
Clauses2 == {<<p>> : p \in Preds} \cup {<<p, q>> : p \in Preds, q \in Preds}
AllA == Asgs(Doms)
Sem(Cs) == {a \in AllA : \A C \in Cs : AnyTrue(C, a)}
\* soundness: RUP(Cs, L) implies every assignment satisfying Cs satisfies L
ASSUME Sound ==
    \A C1 \in {<<P(2, "le", 0), P(3, "ge", 2)>>, <<P(2, "ne", 1)>>, <<P(2, "eq", 2), P(3, "ne", 0)>>} :
    \A C2 \in {<<P(3, "le", 1)>>, <<P(2, "ge", 1), P(3, "eq", 1)>>, <<P(3, "ne", 2), P(2, "le", 1)>>} :
    \A L \in Clauses2 :
        RUP(Doms, {C1, C2}, L) => ClauseHolds(Sem({C1, C2}), L)
\* some expected derivations
ASSUME Derives ==
    /\ RUP(Doms, {<<P(2, "le", 0), P(3, "ge", 2)>>, <<P(3, "le", 1)>>}, <<P(2, "le", 0)>>)
    /\ RUP(Doms, {<<P(2, "ge", 1)>>, <<P(2, "le", 1)>>}, <<P(2, "eq", 1)>>)      \* bounds meet: equality
    /\ ~RUP(Doms, {<<P(2, "le", 0), P(3, "ge", 2)>>}, <<P(2, "le", 0)>>)
    /\ RUP(Doms, {}, <<P(2, "le", 2)>>)                                          \* domain fact
    /\ RUP(Doms, {<<P(2, "ne", 0)>>, <<P(2, "ne", 1)>>, <<P(2, "ne", 2)>>}, <<>>) \* empty clause
VARIABLE x
Init == x = 0
Next == UNCHANGED x
==============================================================================
