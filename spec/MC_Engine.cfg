SPECIFICATION MCSpec
CONSTANTS
  MVars <- ModelVars
  MCons <- ModelCons
  MaxRestarts = 0
  SOUND = TRUE
INVARIANT LearnedImplied
INVARIANT AnswerRight
INVARIANT TrailSound
INVARIANT ConflictIsTrue
INVARIANT ReasonsAligned
PROPERTY Terminates
CHECK_DEADLOCK FALSE
