CONSTANTS
  Bytes <- MCBytes
  MaxClauses = 3
  MaxLits = 3
  MaxDigits = 2
  FIXED = TRUE
  GenLen = 7
  TrackInput = TRUE
INIT Init
NEXT Next
CONSTRAINT Bounded
CONSTRAINT GenBounded
INVARIANT Emit
CHECK_DEADLOCK FALSE
