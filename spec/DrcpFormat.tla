----------------------------- MODULE DrcpFormat -----------------------------
(***************************************************************************)
(* The DRCP proof file format of the drcp-format crate: the abstract proof  *)
(* steps, the WRITER grammar (drcp-format/src/writer/mod.rs:215-311) and    *)
(* the READER grammar (drcp-format/src/reader/mod.rs: next_step, proof_step *)
(* and the nom combinators below it), transcribed SEPARATELY, plus the      *)
(* literal definition (.lits) lines.                                        *)
(*                                                                         *)
(* Numbers are strings (TLC never computes with them): this lets the model  *)
(* range over i32::MAX, u32::MAX, u64::MAX and i64::MIN/MAX symbolically.   *)
(* A line is the sequence of its space-separated tokens (the writer puts    *)
(* exactly one space between tokens; the reader trims the line first).      *)
(*                                                                         *)
(* Property C19: Read(Write(steps)) = steps.                                *)
(***************************************************************************)
EXTENDS Integers, Sequences, FiniteSets, TLC

CONSTANTS Lits,      \* literal codes (strings of non-zero i32)
          Ids,       \* step ids usable in deletions / hints (strings of non-zero u64)
          Tags,      \* constraint tags (strings of non-zero u32)
          Labels,    \* filtering algorithm labels (identifiers)
          FIXED      \* TRUE: the reader grammar after the fix of finding F5; FALSE: as found

None == <<>>
Some(x) == <<x>>

SeqsUpTo(S, n) == UNION {[1..k -> S] : k \in 0..n}

\* ------------------------------------------------------------------ writer calls
\* ProofWriter::log_inference / log_nogood_clause / log_deletion / unsat / optimal
InferenceCalls ==
    [c : {"inference"}, prem : SeqsUpTo(Lits, 2), prop : {None} \cup {Some(x) : x \in Lits},
     tag : {None} \cup {Some(x) : x \in Tags}, label : {None} \cup {Some(x) : x \in Labels}]
NogoodCalls ==
    [c : {"nogood"}, lits : SeqsUpTo(Lits, 2), hints : {None} \cup {Some(h) : h \in SeqsUpTo(Ids, 2)}]
DeleteCalls == [c : {"delete"}, id : Ids]
ConcludeCalls == [c : {"conclude"}, lit : {None} \cup {Some(x) : x \in Lits}]
Calls == InferenceCalls \cup NogoodCalls \cup DeleteCalls

\* the writer numbers inference and nogood steps consecutively from 1 (writer/mod.rs:95-99)
NatStr(n) == ToString(n)

\* the step a call produces, given the id the writer hands out
StepOf(call, id) ==
    CASE call.c = "inference" ->
            [t |-> "i", id |-> id, prem |-> call.prem, prop |-> call.prop, tag |-> call.tag,
             label |-> call.label]
      [] call.c = "nogood" -> [t |-> "n", id |-> id, lits |-> call.lits, hints |-> call.hints]
      [] call.c = "delete" -> [t |-> "d", id |-> call.id]
      [] call.c = "conclude" -> [t |-> "c", lit |-> call.lit]

ConsumesId(call) == call.c \in {"inference", "nogood"}

\* ------------------------------------------------------------------ the writer grammar
Opt(prefix, o) == IF o = None THEN <<>> ELSE <<prefix \o o[1]>>

WriteTokens(s) ==
    CASE s.t = "i" -> <<"i", s.id>> \o s.prem
                      \o (IF s.prop = None THEN <<>> ELSE <<"0", s.prop[1]>>)
                      \o Opt("c:", s.tag) \o Opt("l:", s.label)
      [] s.t = "n" -> <<"n", s.id>> \o s.lits
                      \o (IF s.hints = None THEN <<>> ELSE <<"0">> \o s.hints[1])
      [] s.t = "d" -> <<"d", s.id>>
      [] s.t = "c" -> IF s.lit = None THEN <<"c", "UNSAT">> ELSE <<"c", s.lit[1]>>

\* ------------------------------------------------------------------ the reader grammar
IsLit(tok) == tok \in Lits                \* nom i32, non-zero (map_opt NonZero::new)
IsId(tok) == tok \in Ids \cup {NatStr(i) : i \in 1..9}
IsTagTok(tok) == \E x \in Tags : tok = "c:" \o x
IsLabelTok(tok) == \E x \in Labels : tok = "l:" \o x
Strip2(tok) == CHOOSE x \in Tags \cup Labels : tok = "c:" \o x \/ tok = "l:" \o x

\* length of the maximal prefix of toks that consists of literals (separated_list0(" ", literal))
RECURSIVE LitPrefixLen(_)
LitPrefixLen(toks) ==
    IF toks = <<>> \/ ~IsLit(toks[1]) THEN 0 ELSE 1 + LitPrefixLen(Tail(toks))

Drop(toks, n) == SubSeq(toks, n + 1, Len(toks))
Take(toks, n) == SubSeq(toks, 1, n)
Err == [t |-> "ERR"]

\* `opt(" 0 " literal) opt(" c:" id) opt(" l:" ident)` then end of input
ReadInferenceTail(id, prem, rest) ==
    LET hasProp == Len(rest) >= 2 /\ rest[1] = "0" /\ IsLit(rest[2])
        r1 == IF hasProp THEN Drop(rest, 2) ELSE rest
        hasTag == r1 # <<>> /\ IsTagTok(r1[1])
        r2 == IF hasTag THEN Tail(r1) ELSE r1
        hasLabel == r2 # <<>> /\ IsLabelTok(r2[1])
        r3 == IF hasLabel THEN Tail(r2) ELSE r2
    IN  IF r3 # <<>> THEN Err
        ELSE [t |-> "i", id |-> id, prem |-> prem,
              prop |-> IF hasProp THEN Some(rest[2]) ELSE None,
              tag |-> IF hasTag THEN Some(Strip2(r1[1])) ELSE None,
              label |-> IF hasLabel THEN Some(Strip2(r2[1])) ELSE None]

ReadInference(toks) ==
    IF Len(toks) < 2 \/ ~IsId(toks[2]) THEN Err
    ELSE LET rest0 == Drop(toks, 2)
             n == LitPrefixLen(rest0)
             prem == Take(rest0, n)
             rest == Drop(rest0, n)
         IN  IF FIXED THEN ReadInferenceTail(toks[2], prem, rest)
             \* as found: `tag("i ") step_id tag(" ") literal_list ...`: the separator after the
             \* step id is consumed unconditionally, so (a) a line that ends after the id is
             \* rejected and (b) with an empty premise list nothing that follows can match any
             \* more, because every following alternative starts with a space
             ELSE IF rest0 = <<>> THEN Err
             ELSE IF n = 0 THEN Err
             ELSE ReadInferenceTail(toks[2], prem, rest)

ReadNogood(toks) ==
    IF Len(toks) < 2 \/ ~IsId(toks[2]) THEN Err
    ELSE LET rest0 == Drop(toks, 2)
             n == LitPrefixLen(rest0)
             lits == Take(rest0, n)
             rest == Drop(rest0, n)
             hintToks == IF rest # <<>> /\ rest[1] = "0" THEN Tail(rest) ELSE <<>>
             allIds == \A i \in DOMAIN hintToks : IsId(hintToks[i])
         IN  IF FIXED
             THEN IF rest = <<>> THEN [t |-> "n", id |-> toks[2], lits |-> lits, hints |-> None]
                  ELSE IF rest[1] = "0" /\ allIds
                       THEN [t |-> "n", id |-> toks[2], lits |-> lits, hints |-> Some(hintToks)]
                       ELSE Err
             \* as found: `tag("n ") step_id tag(" ") literal_list opt(alt("0 ", " 0 ") ids)`:
             \* a line that ends after the id is rejected, and the hint marker must be followed by
             \* a space, i.e. by at least one hint (the line is trimmed)
             ELSE IF rest0 = <<>> THEN Err
             ELSE IF rest = <<>> THEN [t |-> "n", id |-> toks[2], lits |-> lits, hints |-> None]
             ELSE IF rest[1] = "0" /\ hintToks # <<>> /\ allIds
                  THEN [t |-> "n", id |-> toks[2], lits |-> lits, hints |-> Some(hintToks)]
                  ELSE Err

ReadTokens(toks) ==
    IF toks = <<>> THEN Err
    ELSE CASE toks[1] = "i" -> ReadInference(toks)
           [] toks[1] = "n" -> ReadNogood(toks)
           [] toks[1] = "d" -> IF Len(toks) = 2 /\ IsId(toks[2]) THEN [t |-> "d", id |-> toks[2]] ELSE Err
           [] toks[1] = "c" -> IF Len(toks) # 2 THEN Err
                               ELSE IF toks[2] = "UNSAT" THEN [t |-> "c", lit |-> None]
                               ELSE IF IsLit(toks[2]) THEN [t |-> "c", lit |-> Some(toks[2])]
                               ELSE Err
           [] OTHER -> Err

\* ------------------------------------------------------------------ property C19
RoundTrip(s) == ReadTokens(WriteTokens(s)) = s

AllSingleSteps ==
    {StepOf(c, "1") : c \in Calls \cup ConcludeCalls}

\* the steps the reader does not give back unchanged
Broken == {s \in AllSingleSteps : ~RoundTrip(s)}
=============================================================================
