-------------------------------- MODULE Trace --------------------------------
(***************************************************************************)
(* Trace validation: a recorded execution of the real solver (ndjson, one   *)
(* event per line, written by the harness from the cfg(pumpkin_verif) hooks *)
(* and from its own API calls) is checked step by step against Engine.tla.  *)
(*                                                                         *)
(* Every event is fully logged, so the trace specification is deterministic *)
(* and validation is linear in the length of the trace.                     *)
(*                                                                         *)
(*  - BINDING conditions (event shape, decision level, trail position,      *)
(*    domain ids, reported bounds = bounds of the specification's domain)   *)
(*    are enabling conditions of the actions: if one fails the trace is     *)
(*    rejected at that event (reported as BIND).                            *)
(*  - PROPERTY conditions are monitors: the event is consumed and every     *)
(*    labelled condition that is false prints a line                        *)
(*        <<"MON", label, scenario, event number, witness>>                 *)
(*    The driver maps labels to properties.                                 *)
(***************************************************************************)
EXTENDS Engine, Json, IOUtils, TLCExt, TimeTableRule

VARIABLES
    l,      \* index of the next event
    scn,    \* <<family, id>> of the scenario being validated
    eng,    \* are engine-level events present in this scenario
    pend,   \* lazily computed reasons to be checked at the end of the propagation batch
    before  \* decision level before the last Backtrack (for the restart monitor)

tvars == <<l, scn, eng, pend, before>>

Rec == TLCEval(ndJsonDeserialize(IOEnv.TRACE))

Mon(label, ok, witness) ==
    IF ok THEN TRUE
    ELSE PrintT("MONJ " \o ToJson([mon |-> label, fam |-> scn[1], id |-> scn[2], i |-> l,
                                   w |-> ToString(witness)]))

SeqToSet(s) == {s[i] : i \in DOMAIN s}

\* A wrong "no (more) solutions" answer, bound or error can be attributed to clauses the library
\* itself left behind in the solver (blocking clauses of an iteration, the objective bound of
\* LinearSatUnsat): reported under its own label (see known_findings.json F2).
Stale == sol # {} /\ solx # sol

\* ---------------------------------------------------------------- reset
TrReset(ev) ==
    /\ vars' = <<{1}>> /\ lits' = {} /\ cons' = <<>>
    /\ sol' = {<<1>>} /\ solx' = {<<1>>}
    /\ dom' = <<{1}>>
    /\ trail' = InitEntries(1, {1})
    /\ level' = 0 /\ life' = "Ready"
    /\ propc' = <<>> /\ db' = <<>> /\ posting' = 0 /\ call' = NoCall
    /\ yielded' = {} /\ lastB' = <<>> /\ best' = <<>>
    /\ hist' = [lsu |-> FALSE, iter |-> FALSE]
    /\ scn' = <<ev.fam, ev.id>> /\ eng' = ev.engine /\ pend' = <<>> /\ before' = 0

\* ---------------------------------------------------------------- model construction
TrNewVar(ev) ==
    /\ NewVar(ev.v, SeqToSet(ev.vals), ev.lit)
    /\ UNCHANGED <<scn, eng, before>>

TrPost(ev) ==
    /\ PostBegin(ev.c)
    /\ UNCHANGED <<scn, eng, before>>

TrPostEnd(ev) ==
    /\ Mon(IF Stale THEN "C10.StaleInternalClauses" ELSE "C02.PostErrRight",
           MonPostErrRight(ev.ok), <<"constraint", posting>>)
    /\ PostEnd
    /\ UNCHANGED <<scn, eng, before>>

TrPropagatorAdded(ev) ==
    /\ PropagatorAdded(ev.id)
    /\ UNCHANGED <<scn, eng, before>>

\* ---------------------------------------------------------------- propagation
TrPropagated(ev) ==
    /\ ev.lvl = level /\ ev.idx = Len(trail)          \* binding: level and 0-based trail index
    /\ Mon("BIND.UntrackedPush", ev.prop >= 0, ev.p)
    /\ IF ev.lazy THEN TRUE
       ELSE Mon("C17.ReasonTrue", MonReasonTrue(ev.reason), <<ev.prop, ev.p, ev.reason>>)
    /\ Mon(IF ev.prop = 0 THEN "C02.NogoodReasonImplied" ELSE "C17.ReasonEntails",
           MonReasonEntails(ev.prop, ev.p, ev.reason), <<ev.prop, ev.p, ev.reason>>)
    /\ Mon("C17.NoSupportRemoved", MonNoSupportRemoved(ev.prop, ev.p), <<ev.prop, ev.p>>)
    /\ Propagate(ev.prop, ev.p)
    /\ pend' = IF ev.lazy THEN Append(pend, ev.reason) ELSE pend
    /\ UNCHANGED <<scn, eng, before>>

TrPropConflict(ev) ==
    /\ Mon("C17.ConflictTrue", MonConflictTrue(ev.nogood), <<ev.prop, ev.nogood>>)
    /\ Mon(IF ev.prop = 0 THEN "C02.NogoodConflictImplied" ELSE "C17.ConflictEntails",
           MonConflictEntails(ev.prop, ev.nogood), <<ev.prop, ev.nogood>>)
    /\ UNCHANGED evars
    /\ UNCHANGED <<scn, eng, before>>

TrEmptyDomain(ev) ==
    /\ EmptyDomain
    /\ ev.pos = Len(trail')
    /\ LET e == trail[Len(trail)] IN
         Mon(IF e.prop = 0 THEN "C02.NogoodConflictImplied" ELSE "C17.ConflictEntails",
             MonConflictEntails(e.prop, ev.nogood), <<e.prop, ev.nogood>>)
    /\ UNCHANGED <<scn, eng, before>>

\* ---------------------------------------------------------------- decisions
TrAssume(ev) ==
    /\ Assume(ev.p, ev.ok)
    /\ ev.lvl = level' /\ ev.pos = Len(trail')
    /\ UNCHANGED <<scn, eng, before>>

TrDecide(ev) ==
    /\ Mon("C18.Undecided", MonUndecided(ev.p) /\ ev.before = "U", <<ev.p, DomOf(ev.p)>>)
    /\ ev.before = EvalNow(ev.p)                              \* binding
    /\ IF ev.before = "F" THEN UNCHANGED evars              \* the solver panics right after
       ELSE Decide(ev.p) /\ ev.lvl = level' /\ ev.pos = Len(trail')
    /\ UNCHANGED <<scn, eng, before>>

TrNoDecision(ev) ==
    /\ \A v \in DOMAIN dom :                                 \* binding: same domains bounds
          dom[v] # {} /\ ev.vals[v][1] = Min(dom[v]) /\ ev.vals[v][2] = Max(dom[v])
    /\ Mon("C18.AllFixed", MonAllFixed, {v \in DOMAIN dom : Cardinality(dom[v]) # 1})
    /\ Mon("C01.SolutionHolds", ~MonAllFixed \/ MonSolutionHolds(CurrentAssignment),
           <<"NoDecision", CurrentAssignment, Violated(CurrentAssignment)>>)
    /\ UNCHANGED evars
    /\ UNCHANGED <<scn, eng, before>>

\* ---------------------------------------------------------------- conflict analysis
TrExplain(ev) ==
    \* (after a failed assumption the variable's domain is empty: its bounds crossed and the code
    \* treats both bounds as true, core extraction relies on that)
    /\ Mon("C17.ExplainTrue",
           \A i \in DOMAIN ev.reason : DomOf(ev.reason[i]) = {} \/ EvalNow(ev.reason[i]) = "T",
           <<ev.p, ev.reason>>)
    /\ CASE ev.kind = "implicit" ->
              Mon("C02.ImplicitSound", MonImplicitSound(ev.p, ev.reason), <<ev.p, ev.reason>>)
         [] ev.kind = "explicit" ->
              Mon(IF ev.prop = 0 THEN "C02.NogoodReasonImplied" ELSE "C17.ReasonEntails",
                  MonReasonEntails(ev.prop, ev.p, ev.reason), <<ev.prop, ev.p, ev.reason, "lazy">>)
         [] OTHER -> Mon("C02.InitialBound", Eval(ev.p, vars[ev.p.x.v]) = "T", ev.p)
    /\ UNCHANGED evars
    /\ UNCHANGED <<scn, eng, before>>

TrAnalysis(ev) ==
    \* (after a failed assumption the variable's domain is empty and every bound counts as true)
    /\ Mon("C02.ConflictTrue",
           \A i \in DOMAIN ev.conflict : DomOf(ev.conflict[i]) = {} \/ EvalNow(ev.conflict[i]) = "T",
           ev.conflict)
    /\ UNCHANGED evars
    /\ UNCHANGED <<scn, eng, before>>

TrMinimise(ev) ==
    \* minimisation may only produce a nogood that is still implied by the model, given its input was
    /\ Mon("C02.MinImplied", ~MonNogoodImplied(ev.input) \/ MonNogoodImplied(ev.output),
           <<ev.which, ev.input, ev.output>>)
    /\ UNCHANGED evars
    /\ UNCHANGED <<scn, eng, before>>

TrLearned(ev) ==
    /\ Mon("C02.NogoodImplied", MonNogoodImplied(ev.nogood), ev.nogood)
    \* (in all-decision mode the analysis runs on the state left by a failed assumption, where the
    \* bounds of the assumed variable have crossed; only the learning mode is judged here)
    /\ Mon("C02.NogoodTrue", ev.mode # "uip" \/ MonNogoodTrue(ev.nogood), ev.nogood)
    /\ IF ev.mode = "uip"
       THEN Mon("C02.Asserting", MonAsserting(ev.nogood, ev.backjump),
                <<ev.nogood, ev.backjump, level, [i \in DOMAIN ev.nogood |-> LevelOf(ev.nogood[i])]>>)
       ELSE TRUE
    /\ UNCHANGED evars
    /\ UNCHANGED <<scn, eng, before>>

TrFlip(ev) ==
    /\ Flip(ev.p)
    /\ ev.lvl = level /\ ev.pos = Len(trail')
    /\ UNCHANGED <<scn, eng, before>>

TrBacktrack(ev) ==
    /\ Backtrack(ev.to)
    /\ ev.pos = Len(trail')
    /\ before' = level
    /\ UNCHANGED <<scn, eng>>

TrRestart(ev) ==
    /\ Mon("C05.NoCutBelowAssumptions", MonRestartAboveAssumptions(before), <<before, call>>)
    /\ UNCHANGED evars
    /\ UNCHANGED <<scn, eng, before>>

TrNogoodAdded(ev) ==
    /\ Mon("C02.DbImplied", MonNogoodImplied(ev.preds), <<ev.id, ev.preds>>)
    /\ NogoodAdded(ev.id, ev.preds, ev.learned)
    /\ UNCHANGED <<scn, eng, before>>

TrNogoodDeleted(ev) ==
    /\ Mon("C07.OnlyLearnedDeleted", MonOnlyLearnedDeleted(ev.id), ev.id)
    /\ NogoodDeleted(ev.id)
    /\ UNCHANGED <<scn, eng, before>>

TrState(ev) ==
    /\ SetLife(ev.s)
    /\ UNCHANGED <<scn, eng, before>>

TrPoll(ev) ==
    /\ IF call.api = "none" THEN UNCHANGED call
       ELSE call' = [call EXCEPT !.polls = @ + 1, !.fired = @ \/ ev.stop]
    /\ UNCHANGED <<vars, lits, cons, sol, solx, dom, trail, level, life, propc, db, posting, yielded,
                   lastB, best, hist>>
    /\ UNCHANGED <<scn, eng, before>>

TrRootConflict(ev) ==
    /\ level = 0
    /\ UNCHANGED evars
    /\ UNCHANGED <<scn, eng, before>>

\* ---------------------------------------------------------------- queries
TrBounds(ev) ==
    /\ Mon(IF \A a \in solx : ev.lb <= Val(ev.x, a) /\ Val(ev.x, a) <= ev.ub
           THEN "C10.StaleInternalClauses" ELSE "C12.Encloses",
           MonEncloses(ev.x, ev.lb, ev.ub), <<ev.x, ev.lb, ev.ub>>)
    /\ Mon("C12.WithinDeclared", MonWithinDeclared(ev.x, ev.lb, ev.ub), <<ev.x, ev.lb, ev.ub>>)
    /\ Mon("C12.Monotone", MonMonotone(ev.x, ev.lb, ev.ub), <<ev.x, ev.lb, ev.ub, lastB>>)
    /\ IF eng THEN Mon("C12.MatchesDom", MonMatchesDom(ev.x, ev.lb, ev.ub),
                       <<ev.x, ev.lb, ev.ub, dom[ev.x.v]>>)
       ELSE TRUE
    /\ QueryBounds(ev.x, ev.lb, ev.ub)
    /\ UNCHANGED <<scn, eng, before>>

TrLitValue(ev) ==
    \* a reported literal value is the value of the literal in every solution
    /\ Mon(IF ev.val = -1 \/ \A a \in solx : Val(ev.x, a) = ev.val
           THEN "C10.StaleInternalClauses" ELSE "C12.LitValue",
           ev.val = -1 \/ \A a \in sol : Val(ev.x, a) = ev.val, <<ev.x, ev.val>>)
    /\ UNCHANGED evars
    /\ UNCHANGED <<scn, eng, before>>

\* ---------------------------------------------------------------- API calls
TrCall(ev) ==
    /\ CallBegin([api |-> ev.api, assum |-> ev.assum, polls |-> 0, fired |-> FALSE,
                  stop |-> ev.stop_at,
                  maximise |-> IF ev.api = "optimise" THEN ev.maximise ELSE FALSE,
                  lus |-> IF ev.api = "optimise" THEN ev.lus ELSE FALSE,
                  obj |-> IF ev.api = "optimise" THEN ev.obj ELSE PlainView(1),
                  base |-> solx, calls |-> 0])
    /\ UNCHANGED <<scn, eng, before>>

InterruptedCall == call.stop >= 0

SolLabel(api) == IF api = "assume" THEN "C05.SatIsSolution" ELSE "C01.SolutionHolds"

TrReturn(ev) ==
    \* the harness stops a run after 500 000 polls (6 000 when every engine event is recorded): only
    \* the former is taken as evidence of non-termination, the latter is informational
    /\ Mon(IF ev.polls >= 500000 THEN "C02.NoTermination" ELSE "C02x.CappedEarly", ~ev.capped, ev.polls)
    /\ Mon("C10.BackAtRoot", ~eng \/ level = 0, level)
    /\ CASE ev.res = "SAT" /\ ev.api \in {"satisfy", "assume"} ->
              /\ Mon("C01.Total", Len(ev.sol) = Len(vars)
                                  /\ \A v \in DOMAIN vars : ev.sol[v] \in vars[v], ev.sol)
              /\ Mon(SolLabel(ev.api), ev.sol \in sol, <<ev.sol, Violated(ev.sol)>>)
              /\ Mon("C05.SatRespectsAssumptions", AllTrue(call.assum, ev.sol), <<ev.sol, call.assum>>)
         [] ev.res = "UNSAT" /\ ev.api \in {"satisfy", "assume", "optimise"} ->
              /\ Mon(IF Stale THEN "C10.StaleInternalClauses"
                     ELSE IF ev.api = "optimise" THEN "C04.UnsatRight"
                     ELSE IF ev.api = "assume" THEN "C05.PlainUnsatRight" ELSE "C02.UnsatRight",
                     sol = {}, <<"solutions", Cardinality(sol), "hist", hist>>)
         [] ev.res = "UNSAT_UA" ->
              /\ Mon(IF Stale THEN "C10.StaleInternalClauses" ELSE "C05.UnsatUARight",
                     {a \in sol : AllTrue(call.assum, a)} = {}, call.assum)
         [] ev.res = "UNKNOWN" ->
              /\ Mon("C11.UnknownOnlyIfInterrupted", InterruptedCall \/ ev.capped, "UNKNOWN without interrupt")
         [] ev.res = "OPTIMAL" ->
              /\ Mon("C01.Total", Len(ev.sol) = Len(vars)
                                  /\ \A v \in DOMAIN vars : ev.sol[v] \in vars[v], ev.sol)
              /\ Mon("C04.OptimalIsSolution", ev.sol \in sol, <<ev.sol, Violated(ev.sol)>>)
              /\ Mon(IF call.base # sol THEN "C10.StaleInternalClauses" ELSE "C04.OptimalIsBest",
                     ev.sol \notin sol \/ ObjVal(ev.sol) = OptValue,
                     <<ev.sol, "obj", call.obj, "max", call.maximise>>)
         [] ev.res = "SAT" /\ ev.api = "optimise" ->
              /\ Mon("C11.BestIsSolution", ev.sol \in sol, <<ev.sol, Violated(ev.sol)>>)
              /\ Mon("C11.UnknownOnlyIfInterrupted", InterruptedCall \/ ev.capped, "SAT without interrupt")
         [] OTHER -> TRUE
    /\ CallEnd
    /\ UNCHANGED <<scn, eng, before>>

TrIterCall(ev) ==
    /\ call' = [call EXCEPT !.calls = @ + 1]
    /\ UNCHANGED <<vars, lits, cons, sol, solx, dom, trail, level, life, propc, db, posting, yielded,
                   lastB, best, hist>>
    /\ UNCHANGED <<scn, eng, before>>

TrIterSolution(ev) ==
    /\ Mon("C01.Total", Len(ev.sol) = Len(vars)
                        /\ \A v \in DOMAIN vars : ev.sol[v] \in vars[v], ev.sol)
    /\ Mon("C03.IsSolution", ev.sol \in sol, <<ev.sol, Violated(ev.sol)>>)
    /\ Mon("C03.NoRepeat", ev.sol \notin yielded, ev.sol)
    /\ IterYield(ev.sol)
    /\ UNCHANGED <<scn, eng, before>>

TrIterEnd(ev) ==
    /\ CASE ev.kind = "FINISHED" ->
              /\ Mon(IF call.base # sol THEN "C10.StaleInternalClauses" ELSE "C03.Complete",
                     yielded = sol, <<"missing", sol \ yielded>>)
              /\ Mon("C03.EndKind", yielded # {}, "FINISHED without a solution")
         [] ev.kind = "UNSAT" ->
              /\ Mon(IF call.base # sol THEN "C10.StaleInternalClauses" ELSE "C03.Complete",
                     sol = {}, <<"missing", sol>>)
              /\ Mon("C03.EndKind", yielded = {}, "UNSAT after a solution")
         \* (polls are only counted when the engine events are recorded)
         [] OTHER -> Mon("C11.UnknownOnlyIfInterrupted", InterruptedCall \/ call.polls >= 6000 \/ ~eng,
                         "iteration ended UNKNOWN without interrupt")
    /\ UNCHANGED evars
    /\ UNCHANGED <<scn, eng, before>>

TrCallback(ev) ==
    /\ Mon("C01.Total", Len(ev.sol) = Len(vars)
                        /\ \A v \in DOMAIN vars : ev.sol[v] \in vars[v], ev.sol)
    /\ Mon("C04.CallbackIsSolution", ev.sol \in sol, <<ev.sol, Violated(ev.sol)>>)
    \* LinearSatUnsat reports strictly improving solutions; LinearUnsatSat reports the first
    \* feasible solution and then the optimum, which may have the same objective value
    /\ Mon("C04.CallbacksImprove",
           best = <<>> \/ ObjVal(ev.sol) < best[1] \/ (call.lus /\ ObjVal(ev.sol) = best[1]),
           <<ev.sol, best>>)
    /\ Callback(ev.sol)
    /\ UNCHANGED <<scn, eng, before>>

\* two assumptions over the same variable that no value satisfies together
Contradictory(p, q) ==
    /\ p.x.v = q.x.v
    /\ \A xv \in (Min(vars[p.x.v]) - 3)..(Max(vars[p.x.v]) + 3) : ~(TrueOnVal(p, xv) /\ TrueOnVal(q, xv))

TrCore(ev) ==
    /\ Mon("C05.CoreImplied",
           \A i \in DOMAIN ev.preds : DomainEntails(vars, Fill, call.assum, ev.preds[i]),
           <<ev.preds, call.assum>>)
    /\ Mon(IF Stale THEN "C10.StaleInternalClauses" ELSE "C05.CoreConflicts",
           {a \in sol : AllTrue(ev.preds, a)} = {}, ev.preds)
    /\ Mon("C05.PairReported",
           ~\E i, j \in DOMAIN call.assum : i < j /\ call.assum[j] = Neg(call.assum[i]),
           call.assum)
    /\ UNCHANGED evars
    /\ UNCHANGED <<scn, eng, before>>

\* some assumption is already false when it is posted: inconsistent with the model all by itself,
\* or left without a value by the earlier assumptions over the same variable (other than the
\* syntactic pair p / ~p, which the library reports as ConflictingAssumption)
SomeAssumptionRefuted ==
    \E i \in DOMAIN call.assum :
        \/ {a \in sol : TrueP(call.assum[i], a)} = {}
        \/ LET v == call.assum[i].x.v IN
           {xv \in vars[v] : \A j \in 1..i : call.assum[j].x.v = v => TrueOnVal(call.assum[j], xv)} = {}

TrCorePanic(ev) ==
    /\ Mon(IF SomeAssumptionRefuted THEN "C10.CorePanicOnRefutedAssumption" ELSE "C10.NoPanic",
           ev.pair, ev.msg)
    /\ Mon(IF SomeAssumptionRefuted THEN "C05.CorePanicOnRefutedAssumption" ELSE "C05.CorePanic",
           ev.pair, ev.msg)
    /\ Mon("C05.PairIsContradictory",
           ~ev.pair \/ \E i, j \in DOMAIN call.assum : i # j /\ Contradictory(call.assum[i], call.assum[j]),
           call.assum)
    /\ UNCHANGED evars
    /\ UNCHANGED <<scn, eng, before>>

\* creating variables after an infeasibility error is a documented precondition violation
AllowedPanic(ev) ==
    /\ "api" \in DOMAIN ev
    /\ ev.api \in {"new_var", "new_literal", "new_literal_for_predicate"}
    /\ sol = {}

TrPanic(ev) ==
    /\ Mon(IF Stale /\ solx = {} THEN "C10.StaleInternalClauses" ELSE "C10.NoPanic", AllowedPanic(ev), ev.msg)
    /\ call' = NoCall /\ posting' = 0
    /\ UNCHANGED <<vars, lits, cons, sol, solx, dom, trail, level, life, propc, db, yielded, lastB,
                   best, hist>>
    /\ UNCHANGED <<scn, eng, before>>

\* the harness' watchdog expired: the call never returned and never polled its termination condition
TrHang(ev) ==
    /\ Mon("C10.NoHang", FALSE, ev.limit_s)
    /\ Mon("C02.NoTermination", FALSE, ev.limit_s)
    /\ Mon("C18.SearchTerminates", FALSE, ev.limit_s)
    /\ UNCHANGED evars
    /\ UNCHANGED <<scn, eng, before>>

TrSkip(ev) == UNCHANGED evars /\ UNCHANGED <<scn, eng, before>>

\* the incremental time-table propagators of cumulative (design-level model: TimeTable.tla).
\* "prop": the wrapped propagate has brought its time-table up to date - it has to be the
\* time-table of the current domains (TimeTable!Current); "sync": the rule of synchronise
\* (informational: an implementation may keep its stored updates instead of rebuilding)
TrTimeTable(ev) ==
    /\ IF ev.what = "prop"
       THEN Mon("C08.TimeTableCurrent", ev.same, <<ev.incr, ev.empty>>)
       ELSE Mon("C08x.SyncRule", ev.incr \/ (SyncOutdated(TRUE, ev.ob, ev.empty, ev.upd) => ev.oa),
                <<ev.ob, ev.empty, ev.upd, ev.oa>>)
    /\ UNCHANGED evars /\ UNCHANGED <<scn, eng, before>>

\* ---------------------------------------------------------------- the trace specification
Dispatch(ev) ==
    CASE ev.e = "Reset" -> TrReset(ev)
      [] ev.e = "NewVar" -> TrNewVar(ev)
      [] ev.e = "Post" -> TrPost(ev)
      [] ev.e = "PostEnd" -> TrPostEnd(ev)
      [] ev.e = "PropagatorAdded" -> TrPropagatorAdded(ev)
      [] ev.e = "Propagated" -> TrPropagated(ev)
      [] ev.e = "PropConflict" -> TrPropConflict(ev)
      [] ev.e = "EmptyDomain" -> TrEmptyDomain(ev)
      [] ev.e = "Assume" -> TrAssume(ev)
      [] ev.e = "Decide" -> TrDecide(ev)
      [] ev.e = "NoDecision" -> TrNoDecision(ev)
      [] ev.e = "Explain" -> TrExplain(ev)
      [] ev.e = "Analysis" -> TrAnalysis(ev)
      [] ev.e = "Minimise" -> TrMinimise(ev)
      [] ev.e = "Learned" -> TrLearned(ev)
      [] ev.e = "Flip" -> TrFlip(ev)
      [] ev.e = "Backtrack" -> TrBacktrack(ev)
      [] ev.e = "Restart" -> TrRestart(ev)
      [] ev.e = "NogoodAdded" -> TrNogoodAdded(ev)
      [] ev.e = "NogoodDeleted" -> TrNogoodDeleted(ev)
      [] ev.e = "State" -> TrState(ev)
      [] ev.e = "Poll" -> TrPoll(ev)
      [] ev.e = "RootConflict" -> TrRootConflict(ev)
      [] ev.e = "Bounds" -> TrBounds(ev)
      [] ev.e = "LitValue" -> TrLitValue(ev)
      [] ev.e = "Call" -> TrCall(ev)
      [] ev.e = "Return" -> TrReturn(ev)
      [] ev.e = "IterCall" -> TrIterCall(ev)
      [] ev.e = "IterSolution" -> TrIterSolution(ev)
      [] ev.e = "IterEnd" -> TrIterEnd(ev)
      [] ev.e = "IterStop" -> TrSkip(ev)
      [] ev.e = "Callback" -> TrCallback(ev)
      [] ev.e = "Core" -> TrCore(ev)
      [] ev.e = "CorePanic" -> TrCorePanic(ev)
      [] ev.e = "Panic" -> TrPanic(ev)
      [] ev.e = "Hang" -> TrHang(ev)
      [] ev.e = "Reif" -> TrSkip(ev)
      [] ev.e = "TT" -> TrTimeTable(ev)

TraceInit ==
    /\ EInit
    /\ l = 1 /\ scn = <<"none", 0>> /\ eng = TRUE /\ pend = <<>> /\ before = 0

TraceNext ==
    /\ l <= Len(Rec)
    /\ l' = l + 1
    /\ LET ev == Rec[l] IN
        /\ Dispatch(ev)
        \* lazily computed reasons are checked once the batch they were computed in is over
        /\ IF ev.e = "Propagated" THEN TRUE
           ELSE /\ Mon("C17.LazyReasonTrue",
                       \* a batch that ends by wiping out a domain is judged once the entry that
                       \* emptied it is popped again (the reason was computed over the popped state)
                       IF ev.e = "EmptyDomain"
                       THEN \A i \in DOMAIN pend : \A j \in DOMAIN pend[i] :
                               dom'[pend[i][j].x.v] # {} /\ Eval(pend[i][j], dom'[pend[i][j].x.v]) = "T"
                       ELSE \A i \in DOMAIN pend : AllTrueNow(pend[i]), pend)
                /\ IF ev.e = "Reset" THEN TRUE ELSE pend' = <<>>

TraceSpec == TraceInit /\ [][TraceNext]_<<evars, tvars>>

\* acceptance: every line was consumed (the diameter counts the initial state as well)
TraceAccepted ==
    LET d == TLCGet("stats").diameter IN
    IF d - 1 = Len(Rec) THEN PrintT("ENDJ " \o ToJson([accepted |-> TRUE, events |-> Len(Rec), matched |-> d - 1]))
    ELSE Print("ENDJ " \o ToJson([accepted |-> FALSE, events |-> Len(Rec), matched |-> d - 1,
                                  unmatched |-> IF d <= Len(Rec) THEN ToString(Rec[d]) ELSE "none"]), FALSE)
=============================================================================
