------------------------------ MODULE MC_BigInt ------------------------------
(* BigInt.tla against TLC's native integers where those suffice, plus a few hand-computed       *)
(* values beyond 32 bits.                                                                       *)
EXTENDS BigInt, TLC
R == {-70000, -32769, -32768, -32767, -300, -1, 0, 1, 2, 255, 32767, 32768, 32769, 46340, 65536}
ASSUME AddAgrees == \A x \in R, y \in R : BAdd(Big(x), Big(y)) = Big(x + y)
ASSUME SubAgrees == \A x \in R, y \in R : BSub(Big(x), Big(y)) = Big(x - y)
ASSUME MulAgrees == \A x \in R \ {-70000, 65536}, y \in {-46340, -300, -1, 0, 1, 2, 255, 32767, 32768, 46340} :
                       BMul(Big(x), Big(y)) = Big(x * y)
ASSUME CmpAgrees == \A x \in R, y \in R : (BCmp(Big(x), Big(y)) < 0) = (x < y)
\* 46341^2 = 2147488281 = 2^31 + 4633  (does not fit i32)
ASSUME Square == BMul(Big(46341), Big(46341)) = BAdd(BAdd(Big(2147483647), Big(1)), Big(4633))
\* (2^31 - 1)^2 = 2^62 - 2^32 + 1 : limbs (base 2^15): 2^62 = limb index 4 (2^60) * 4
ASSUME BigSquare == BMul(Big(2147483647), Big(2147483647)).mag = <<1, 0, 32764, 32767, 3>>
ASSUME MinInt == Big(-2147483647 - 1).mag = <<0, 0, 2>> /\ BAdd(Big(-2147483647 - 1), Big(2147483647)) = Big(-1)
VARIABLE x
Init == x = 0
Next == UNCHANGED x
==============================================================================
