SPECIFICATION GSpec
CONSTANTS
  Lo <- GLo
  Hi = 2
  MaxTrail = 5
  MaxLevel = 2
  BUG = "none"
INVARIANT Emit
VIEW gview
CHECK_DEADLOCK FALSE
