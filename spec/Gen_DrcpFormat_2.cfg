CONSTANTS
  Lits <- MCLits
  Ids <- MCIds
  Tags <- MCTags
  Labels <- MCLabels
  FIXED = TRUE
  Depth = 2
  Reduced = TRUE
INIT Init
NEXT Next
INVARIANT Emit
CHECK_DEADLOCK FALSE
