SPECIFICATION Spec
CONSTANTS
  Tasks = {t1, t2}
  MaxLevel = 3
  INCR = TRUE
  FIXED = TRUE
INVARIANT TypeOK
INVARIANT Current
INVARIANT Tracked
CHECK_DEADLOCK FALSE
