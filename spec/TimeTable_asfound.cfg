SPECIFICATION Spec
CONSTANTS
  Tasks = {t1, t2}
  MaxLevel = 3
  INCR = FALSE
  FIXED = FALSE
INVARIANT TypeOK
INVARIANT Current
CHECK_DEADLOCK FALSE
