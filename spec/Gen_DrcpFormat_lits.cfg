CONSTANTS
  Lits <- MCLits
  Ids <- MCIds
  Tags <- MCTags
  Labels <- MCLabels
  FIXED = TRUE
  Depth = 0
  Reduced = FALSE
INIT Init
NEXT Next
INVARIANT EmitLits
CHECK_DEADLOCK FALSE
