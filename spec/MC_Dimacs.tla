------------------------------ MODULE MC_Dimacs ------------------------------
EXTENDS Dimacs, Json
CONSTANT GenLen
MCBytes == {"1", "-", "0", " ", "\n", "c"}
MCBytesWide == {"1", "2", "-", "0", " ", "\n", "c", "\t", "x", "\r"}
ViewNoInput == <<st, buf, clause, clauses, line, rtok, rtoks, rclauses, rerr>>
\* generation of file bodies with the clause list the REFERENCE reads from them (MBT through the CLI)
RECURSIVE Join(_)
Join(s) == IF s = <<>> THEN "" ELSE s[1] \o Join(Tail(s))
GenBounded == Len(input) <= GenLen
Emit ==
    (Len(input) >= 1 /\ ~RefResult.err) =>
        PrintT("GENJ " \o ToJson([body |-> Join(input),
                                  clauses |-> [i \in DOMAIN RefResult.cls |->
                                                 [j \in DOMAIN RefResult.cls[i] |-> Join(RefResult.cls[i][j])]]]))
==============================================================================
