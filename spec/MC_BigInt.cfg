INIT Init
NEXT Next
