SPECIFICATION Spec
CONSTANT FIXED = TRUE
INVARIANT TypeOK
INVARIANT NoPanic
INVARIANT UsableBetweenCalls
CHECK_DEADLOCK FALSE
VIEW view
