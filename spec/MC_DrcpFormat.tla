--------------------------- MODULE MC_DrcpFormat ---------------------------
(* Exhaustive check of C19 on the step space of DrcpFormat.tla, and generation of writer-call      *)
(* sequences (with the text and the steps the specification expects) for replay through the real  *)
(* ProofWriter / ProofReader.                                                                      *)
EXTENDS DrcpFormat, Json

CONSTANTS Depth,     \* number of writer calls per generated behaviour (before the conclusion)
          Reduced    \* TRUE: use a reduced alphabet of calls (for Depth > 1)

VARIABLE h           \* the writer calls made so far

MCLits == {"1", "-1", "2", "2147483647", "-2147483647"}
MCIds == {"1", "7", "18446744073709551615"}
MCTags == {"1", "4294967295"}
MCLabels == {"a", "_x1", "linear_bounds"}

ReducedCalls ==
    {c \in Calls :
        \/ c.c = "inference" /\ Len(c.prem) <= 1 /\ c.label = None
                             /\ (c.prem = <<>> \/ c.prem[1] \in {"-1", "2147483647"})
                             /\ (c.prop = None \/ c.prop[1] = "2") /\ (c.tag = None \/ c.tag[1] = "1")
        \/ c.c = "nogood" /\ Len(c.lits) <= 1 /\ (c.lits = <<>> \/ c.lits[1] = "-2147483647")
                          /\ (c.hints = None \/ Len(c.hints[1]) <= 1)
        \/ c.c = "delete" /\ c.id = "7"}

GenCalls == IF Reduced THEN ReducedCalls ELSE Calls

\* ids handed out by the writer: 1, 2, ... for inference and nogood calls
RECURSIVE StepsOf(_, _)
StepsOf(calls, next) ==
    IF calls = <<>> THEN <<>>
    ELSE <<StepOf(calls[1], NatStr(next))>>
         \o StepsOf(Tail(calls), IF ConsumesId(calls[1]) THEN next + 1 ELSE next)

Init == h = <<>>
Next == Len(h) < Depth /\ \E c \in GenCalls : h' = Append(h, c)

\* C19: every step of the behaviour (and, in the initial state, every conclusion) reads back unchanged
RoundTripAll ==
    /\ \A i \in DOMAIN h : RoundTrip(StepOf(h[i], "1"))
    /\ h = <<>> => \A c \in ConcludeCalls : RoundTrip(StepOf(c, "1"))

\* one line per maximal behaviour, for every possible conclusion
Emit ==
    Len(h) = Depth =>
        \A concl \in ConcludeCalls :
            LET calls == Append(h, concl)
                steps == StepsOf(calls, 1)
            IN  PrintT("GENJ " \o ToJson([calls |-> calls, steps |-> steps,
                                          lines |-> [i \in DOMAIN steps |-> WriteTokens(steps[i])]]))

\* ------------------------------------------------------------------ literal definition files
Names == {"x", "_y1", "Var_2"}
Cmps == {">=", "<=", "==", "!="}
Values == {"0", "-1", "9223372036854775807", "-9223372036854775808"}
Codes == {"1", "7", "4294967295"}
IntAtomics == [kind : {"int"}, name : Names, cmp : Cmps, value : Values]
BoolAtomics == [kind : {"bool"}, name : Names, cmp : {"=="}, value : {"true", "false"}]
Atomics == IntAtomics \cup BoolAtomics

\* LiteralDefinitions::write (literal_definitions.rs:83-99): `<code> [name cmp value] ...`
AtomicTokens(a) == <<"[" \o a.name, a.cmp, a.value \o "]">>
RECURSIVE AllAtomicTokens(_)
AllAtomicTokens(as) == IF as = <<>> THEN <<>> ELSE AtomicTokens(as[1]) \o AllAtomicTokens(Tail(as))
DefLine(d) == <<d.code>> \o AllAtomicTokens(d.atomics)

EmitLits ==
    h = <<>> =>
        /\ \A c \in Codes, a \in Atomics :
              LET d == [code |-> c, atomics |-> <<a>>]
              IN  PrintT("GENJ " \o ToJson([defs |-> <<d>>, lines |-> <<DefLine(d)>>]))
        /\ \A a \in IntAtomics, b \in BoolAtomics :
              a.name = b.name /\ a.value \in {"0", "-1"} =>
              LET d1 == [code |-> "1", atomics |-> <<a, b>>]
                  d2 == [code |-> "4294967295", atomics |-> <<b>>]
              IN  PrintT("GENJ " \o ToJson([defs |-> <<d1, d2>>, lines |-> <<DefLine(d1), DefLine(d2)>>]))
        /\ \A a \in Atomics : PrintT("GENJ " \o ToJson([atomic |-> a]))
=============================================================================
