------------------------------ MODULE BigTrace ------------------------------
(***************************************************************************)
(* Property C16: constraint arithmetic at magnitudes up to 2^31.            *)
(*                                                                         *)
(* Enumerating Sol(M) is impossible at this magnitude, so this trace        *)
(* specification carries the *meaning* of the posted constraints only as    *)
(* the predicate BigHolds (BigInt.tla: exact sign+limb arithmetic inside    *)
(* TLA+) and decides every recorded answer of the library at total points:  *)
(*   Point     satisfy_under_assumptions([x = v] for every variable)        *)
(*             must say SAT exactly when v lies in the declared ranges and  *)
(*             BigHolds(c, v) for every posted c;                           *)
(*   Bounds    root bounds after posting must enclose every planted point   *)
(*             that is a solution;                                          *)
(*   Return    a solution returned by satisfy() is a solution in exact      *)
(*             arithmetic; UNSAT is wrong if a planted solution exists;     *)
(*   Panic     an arithmetic overflow / failed assertion is a violation.    *)
(* State: declared ranges, posted constraints, root bounds, the planted     *)
(* solutions seen so far.                                                   *)
(***************************************************************************)
EXTENDS BigInt, Json, IOUtils, TLC, TLCExt

VARIABLES l, scn, lo, hi, cons, rb, planted, claimedUnsat, dead

vars == <<l, scn, lo, hi, cons, rb, planted, claimedUnsat, dead>>

Rec == TLCEval(ndJsonDeserialize(IOEnv.TRACE))

Mon(label, ok, witness) ==
    IF ok THEN TRUE
    ELSE PrintT("MONJ " \o ToJson([mon |-> label, fam |-> scn[1], id |-> scn[2], i |-> l,
                                   w |-> ToString(witness)]))

InRange(a) == \A v \in DOMAIN lo : lo[v] <= a[v] /\ a[v] <= hi[v]
IsSolution(a) == InRange(a) /\ \A i \in DOMAIN cons : BigHolds(cons[i], a)

\* the assignment of a Point/Return event: index 1 is the constant-one dummy variable
Asg(vals) == [v \in 1..Len(vals) |-> vals[v]]

Init ==
    /\ l = 1 /\ scn = <<"none", 0>> /\ lo = <<1>> /\ hi = <<1>> /\ cons = <<>> /\ rb = <<>>
    /\ planted = {} /\ claimedUnsat = FALSE /\ dead = FALSE

Step(e) ==
    CASE e.e = "Reset" ->
            /\ scn' = <<e.fam, e.id>> /\ lo' = <<1>> /\ hi' = <<1>> /\ cons' = <<>> /\ rb' = <<>>
            /\ planted' = {} /\ claimedUnsat' = FALSE /\ dead' = FALSE
      [] e.e = "NewVarR" ->
            /\ e.v = Len(lo) + 1                                    \* binding: ids are dense
            /\ lo' = Append(lo, e.lo) /\ hi' = Append(hi, e.hi)
            /\ UNCHANGED <<scn, cons, rb, planted, claimedUnsat, dead>>
      [] e.e = "Post" ->
            /\ cons' = Append(cons, e.c)
            /\ UNCHANGED <<scn, lo, hi, rb, planted, claimedUnsat, dead>>
      [] e.e = "PostEnd" ->
            /\ claimedUnsat' = (claimedUnsat \/ ~e.ok)
            /\ UNCHANGED <<scn, lo, hi, cons, rb, planted, dead>>
      [] e.e = "Bounds" ->
            /\ rb' = Append(rb, [x |-> e.x, lb |-> e.lb, ub |-> e.ub])
            /\ Mon("C16.BoundsWithinDeclared",
                   claimedUnsat \/ ~(e.x.s = 1 /\ e.x.o = 0) \/ (lo[e.x.v] <= e.lb /\ e.ub <= hi[e.x.v]), e)
            /\ UNCHANGED <<scn, lo, hi, cons, planted, claimedUnsat, dead>>
      [] e.e = "Point" ->
            LET a == Asg(e.vals)  holds == IsSolution(a) IN
            /\ Len(e.vals) = Len(lo)
            /\ planted' = IF holds THEN planted \cup {a} ELSE planted
            /\ Mon("C16.PointQuery",
                   e.res = "UNKNOWN" \/ (holds <=> e.res = "SAT"),
                   [point |-> e.vals, exact |-> holds, answered |-> e.res, cons |-> cons])
            /\ Mon("C16.PointSolution", e.res # "SAT" \/ e.sol = e.vals, e)
            /\ Mon("C16.PostNotSpurious", ~(holds /\ claimedUnsat), [point |-> e.vals, cons |-> cons])
            /\ Mon("C16.BoundsEnclosePlanted",
                   ~holds \/ claimedUnsat \/
                      \A i \in DOMAIN rb :
                         LET val == BVal(rb[i].x, a) IN BLe(Big(rb[i].lb), val) /\ BLe(val, Big(rb[i].ub)),
                   [point |-> e.vals, bounds |-> rb])
            /\ UNCHANGED <<scn, lo, hi, cons, rb, claimedUnsat, dead>>
      [] e.e = "Return" ->
            /\ Mon("C16.SolutionExact", e.res \notin {"SAT", "OPTIMAL"} \/ IsSolution(Asg(e.sol)),
                   [sol |-> e.sol, cons |-> cons])
            /\ Mon("C16.NoSpuriousUnsat", e.res # "UNSAT" \/ planted = {},
                   [planted |-> planted, cons |-> cons])
            /\ UNCHANGED <<scn, lo, hi, cons, rb, planted, claimedUnsat, dead>>
      [] e.e = "Callback" ->      \* an improving solution reported during an optimisation
            /\ Mon("C16.SolutionExact", IsSolution(Asg(e.sol)), [sol |-> e.sol, cons |-> cons])
            /\ UNCHANGED <<scn, lo, hi, cons, rb, planted, claimedUnsat, dead>>
      [] e.e = "Panic" ->
            /\ dead' = TRUE
            /\ Mon("C16.NoPanic", FALSE, e)
            /\ UNCHANGED <<scn, lo, hi, cons, rb, planted, claimedUnsat>>
      [] e.e = "Hang" ->
            /\ dead' = TRUE
            \* informational: bounds propagation over ranges of 2^30 values may converge one value
            \* at a time (parity arguments); C16 is about the values computed, termination is C02's
            /\ Mon("C16x.SlowOrHung", FALSE, e)
            /\ UNCHANGED <<scn, lo, hi, cons, rb, planted, claimedUnsat>>
      [] OTHER ->       \* Call and other bookkeeping events carry nothing this specification reads
            /\ e.e \in {"Call", "LitValue"}
            /\ UNCHANGED <<scn, lo, hi, cons, rb, planted, claimedUnsat, dead>>

Next == l <= Len(Rec) /\ l' = l + 1 /\ Step(Rec[l])
Spec == Init /\ [][Next]_vars

Accepted ==
    LET d == TLCGet("stats").diameter IN
    IF d - 1 = Len(Rec) THEN PrintT("ENDJ " \o ToJson([accepted |-> TRUE, events |-> Len(Rec), matched |-> d - 1]))
    ELSE Print("ENDJ " \o ToJson([accepted |-> FALSE, events |-> Len(Rec), matched |-> d - 1,
                                  unmatched |-> IF d <= Len(Rec) THEN ToString(Rec[d]) ELSE "?"]), FALSE)
=============================================================================
