-------------------------------- MODULE Drcp --------------------------------
(***************************************************************************)
(* What it means for a DRCP proof to be a valid certificate (property C06). *)
(*                                                                         *)
(* A proof is a sequence of steps over atomic constraints (predicates):     *)
(*   inference  premises -> conclusion (or -> false), tagged by a constraint *)
(*   nogood     a clause, optionally with the ids of the steps to use       *)
(*   deletion   of an earlier nogood                                        *)
(*   conclusion UNSAT, or a dual bound on the objective                     *)
(* This module defines the two justifications a checker applies:            *)
(*   - an inference follows from the ONE constraint it is tagged with       *)
(*     (semantic entailment over the declared domains, Constraints.tla);    *)
(*   - a nogood follows by REVERSE PROPAGATION: assume every literal of the *)
(*     clause false, then apply unit propagation over atomic constraints    *)
(*     with the steps the nogood may use until some domain is empty.        *)
(***************************************************************************)
EXTENDS Constraints, FiniteSets

\* a clause is a sequence of predicates read as a disjunction
EvalIn(p, D) == Eval(p, D[p.x.v])
Restrict(D, p) == [D EXCEPT ![p.x.v] = {xv \in @ : TrueOnVal(p, xv)}]
RECURSIVE RestrictAll(_, _, _)
RestrictAll(D, ps, i) == IF i > Len(ps) THEN D ELSE RestrictAll(Restrict(D, ps[i]), ps, i + 1)
HasEmpty(D) == \E v \in DOMAIN D : D[v] = {}

\* an inference  premises -> conclusion  as a clause
InfClause(prem, has, concl) ==
    [i \in 1..Len(prem) |-> Neg(prem[i])] \o (IF has THEN <<concl>> ELSE <<>>)

Falsified(C, D) == \A i \in DOMAIN C : EvalIn(C[i], D) = "F"
Open(C, D) == {i \in DOMAIN C : EvalIn(C[i], D) # "F"}
IsUnit(C, D) == Cardinality(Open(C, D)) = 1 /\ \A i \in Open(C, D) : EvalIn(C[i], D) = "U"

\* unit propagation over atomic constraints to fixpoint; TRUE iff a conflict is reached
RECURSIVE Conflicts(_, _)
Conflicts(D, Cs) ==
    IF HasEmpty(D) \/ \E C \in Cs : Falsified(C, D) THEN TRUE
    ELSE LET U == {C \in Cs : IsUnit(C, D)} IN
         IF U = {} THEN FALSE
         ELSE LET C == CHOOSE C \in U : TRUE
                  i == CHOOSE i \in Open(C, D) : TRUE
              IN  Conflicts(Restrict(D, C[i]), Cs)

\* the clause L follows from the clauses Cs over the declared domains by reverse propagation
NegAll(L) == [i \in DOMAIN L |-> Neg(L[i])]
RUP(doms, Cs, L) == Conflicts(RestrictAll(doms, NegAll(L), 1), Cs)

\* semantic validity of a clause for a set of assignments
ClauseHolds(S, L) == \A a \in S : AnyTrue(L, a)
=============================================================================
