--------------------------------- MODULE Cli ---------------------------------
(***************************************************************************)
(* The observable protocol of the command-line solver on DIMACS CNF, WCNF   *)
(* and FlatZinc inputs (src/bin/pumpkin-solver/main.rs, maxsat/, flatzinc/) *)
(* and what properties C13, C14, C15 say about it.  Every run of the real   *)
(* binary is one event; the oracle is brute force over the assignments of   *)
(* the (small) instance, written here and evaluated by TLC.                 *)
(*                                                                         *)
(*   CnfRun  {nv, clauses, status, model, hasproof, proof}                   *)
(*   WcnfRun {nv, hard, soft:[{w, lits}], olines, status, model}             *)
(*   FznRun  {vars (domains), cons (Constraints.tla records), out, blocks,  *)
(*            status, all, objective?, ...}                                 *)
(***************************************************************************)
EXTENDS Constraints, Json, IOUtils, TLC, TLCExt

VARIABLES l, lastOpt      \* position in the trace; optimum reported for the same WCNF by the other encoding

Rec == TLCEval(ndJsonDeserialize(IOEnv.TRACE))

Mon(label, ok, id, witness) ==
    IF ok THEN TRUE
    ELSE PrintT("MONJ " \o ToJson([mon |-> label, fam |-> "cli", id |-> id, i |-> Rec[l].i,
                                   w |-> ToString(witness)]))

\* ------------------------------------------------------------------ propositional part
\* an assignment is a function 1..nv -> BOOLEAN; a literal is a non-zero integer
BoolAsgs(nv) == [1..nv -> BOOLEAN]
LitTrue(lit, a) == IF lit > 0 THEN a[lit] ELSE ~a[-lit]
ClauseTrue(c, a) == \E i \in DOMAIN c : LitTrue(c[i], a)
AllClausesTrue(cs, a) == \A i \in DOMAIN cs : ClauseTrue(cs[i], a)
Models(nv, cs) == {a \in BoolAsgs(nv) : AllClausesTrue(cs, a)}
\* satisfiability depends on the variables that occur only (a header may declare a hundred more)
OccVars(cs) == UNION {{IF cs[i][j] > 0 THEN cs[i][j] ELSE 0 - cs[i][j] : j \in DOMAIN cs[i]} : i \in DOMAIN cs}
Unsatisfiable(cs) == {a \in [OccVars(cs) -> BOOLEAN] : AllClausesTrue(cs, a)} = {}

\* the assignment a `v` line denotes, if it mentions every variable exactly once
ModelOk(nv, model) ==
    /\ Len(model) = nv
    /\ \A v \in 1..nv : \E i \in DOMAIN model : model[i] = v \/ model[i] = -v
AsgOfModel(nv, model) == [v \in 1..nv |-> \E i \in DOMAIN model : model[i] = v]

\* ---- reverse unit propagation (DRAT without deletion), Drat.tla folded in
\* partial assignment: set of literals made true
Falsified(c, T) == \A i \in DOMAIN c : (0 - c[i]) \in T
Satisfied(c, T) == \E i \in DOMAIN c : c[i] \in T
UnitLit(c, T) ==        \* the only literal of c that is not falsified, if c is unit under T
    LET open == {i \in DOMAIN c : (0 - c[i]) \notin T} IN
    IF ~Satisfied(c, T) /\ Cardinality({c[i] : i \in open}) = 1 THEN {c[CHOOSE i \in open : TRUE]} ELSE {}

RECURSIVE UP(_, _)
UP(cs, T) ==            \* unit propagation to fixpoint; returns "CONFLICT" or the set of true literals
    IF \E i \in DOMAIN cs : Falsified(cs[i], T) THEN {"CONFLICT"}
    ELSE LET new == UNION {UnitLit(cs[i], T) : i \in DOMAIN cs} \ T IN
         IF new = {} THEN T ELSE UP(cs, T \cup new)

IsRup(cs, lemma) == UP(cs, {0 - lemma[i] : i \in DOMAIN lemma}) = {"CONFLICT"}

\* every lemma is RUP w.r.t. the formula and the earlier lemmas; the last one is the empty clause
RECURSIVE ProofOk(_, _, _)
ProofOk(cs, proof, k) ==
    IF k > Len(proof) THEN TRUE
    ELSE IsRup(cs, proof[k]) /\ ProofOk(Append(cs, proof[k]), proof, k + 1)
FirstBadLemma(cs, proof) ==
    LET bad == {k \in DOMAIN proof : ~IsRup(cs \o SubSeq(proof, 1, k - 1), proof[k])} IN
    IF bad = {} THEN 0 ELSE CHOOSE k \in bad : \A j \in bad : k <= j

TrCnf(ev) ==
    /\ Mon("C14.StatusKnown", ev.status \in {"SAT", "UNSAT"}, ev.id, <<ev.status, ev.stderr>>)
    /\ Mon("C14.ExpectedStatus", ev.expect = "" \/ ev.status = ev.expect, ev.id, <<ev.status, ev.expect, ev.layout>>)
    /\ IF ev.status = "SAT"
       THEN /\ Mon("C14.SatModelTotal", ModelOk(ev.nv, ev.model), ev.id, ev.model)
            /\ Mon("C14.SatModel", ~ModelOk(ev.nv, ev.model) \/ AllClausesTrue(ev.clauses, AsgOfModel(ev.nv, ev.model)),
                   ev.id, <<ev.model, ev.clauses>>)
       ELSE TRUE
    /\ IF ev.status = "UNSAT"
       THEN /\ Mon("C14.UnsatRight", Unsatisfiable(ev.clauses), ev.id, <<"satisfiable", ev.clauses>>)
            /\ IF ev.hasproof
               THEN /\ Mon("C14.EndsEmpty", ev.proof # <<>> /\ ev.proof[Len(ev.proof)] = <<>>, ev.id, ev.proof)
                    /\ Mon("C14.LemmaRup", ProofOk(ev.clauses, ev.proof, 1), ev.id,
                           <<"first bad lemma", FirstBadLemma(ev.clauses, ev.proof), ev.proof>>)
               ELSE TRUE
       ELSE TRUE
    /\ UNCHANGED lastOpt

\* ------------------------------------------------------------------ MaxSAT (C15)
SoftCost(soft, a) ==
    LET S[i \in 0..Len(soft)] ==
          IF i = 0 THEN 0 ELSE S[i-1] + (IF ClauseTrue(soft[i].lits, a) THEN 0 ELSE soft[i].w)
    IN  S[Len(soft)]

TrWcnf(ev) ==
    LET M == Models(ev.nv, ev.hard)
        costs == {SoftCost(ev.soft, a) : a \in M}
        opt == IF M = {} THEN -1 ELSE Min(costs)
    IN
    /\ Mon("C15.StatusKnown", ev.status \in {"OPTIMUM", "UNSAT"}, ev.id, <<ev.status, ev.stderr>>)
    /\ IF M = {} THEN Mon("C15.UnsatRight", ev.status = "UNSAT", ev.id, ev.status)
       ELSE /\ Mon("C15.OptimumFound", ev.status = "OPTIMUM", ev.id, <<ev.status, ev.stderr>>)
            /\ Mon("C15x.OLinesAreCosts", \A i \in DOMAIN ev.olines : ev.olines[i] \in costs, ev.id,
                   <<ev.olines, costs>>)
            /\ Mon("C15x.OLinesDecrease",
                   \A i \in DOMAIN ev.olines : i > 1 => ev.olines[i] < ev.olines[i-1], ev.id, ev.olines)
            /\ Mon("C15.OptimumRight",
                   ev.status # "OPTIMUM" \/ (ev.olines # <<>> /\ ev.olines[Len(ev.olines)] = opt), ev.id,
                   <<"reported", ev.olines, "optimum", opt>>)
            /\ Mon("C15.ModelCost",
                   ev.status # "OPTIMUM" \/
                     (/\ ModelOk(ev.nv, ev.model)
                      /\ AsgOfModel(ev.nv, ev.model) \in M
                      /\ ev.olines # <<>>
                      /\ SoftCost(ev.soft, AsgOfModel(ev.nv, ev.model)) = ev.olines[Len(ev.olines)]),
                   ev.id, <<ev.model, ev.olines>>)
    /\ Mon("C15.EncodingsAgree",
           ev.pair = 0 \/ lastOpt = <<>> \/ lastOpt[1] # ev.pair
             \/ lastOpt[2] = <<ev.status, IF ev.olines = <<>> THEN -1 ELSE ev.olines[Len(ev.olines)]>>,
           ev.id, <<lastOpt, ev.status, ev.olines>>)
    /\ lastOpt' = <<ev.pair, <<ev.status, IF ev.olines = <<>> THEN -1 ELSE ev.olines[Len(ev.olines)]>>>>

\* ------------------------------------------------------------------ FlatZinc (C13)
\* ev.doms : sequence of sets (as sequences) -- the variables; variable 1 is the dummy {1}
\* ev.cons : constraints in the vocabulary of Constraints.tla
\* ev.out  : the output items, each a sequence of variable indices (a scalar is a 1-sequence)
\* ev.blocks : the printed solutions, each a sequence (per output item) of sequences of values
SeqSet(s) == {s[i] : i \in DOMAIN s}
FznDoms(ev) == [v \in DOMAIN ev.doms |-> SeqSet(ev.doms[v])]
FznSol(ev) == {a \in Asgs(FznDoms(ev)) : \A i \in DOMAIN ev.cons : Holds(ev.cons[i], a)}
ProjOf(ev, a) == [i \in DOMAIN ev.out |-> [j \in DOMAIN ev.out[i] |-> a[ev.out[i][j]]]]
FznObj(ev, a) == IF ev.maximise THEN 0 - a[ev.obj] ELSE a[ev.obj]

TrFzn(ev) ==
    LET S == FznSol(ev)
        P == {ProjOf(ev, a) : a \in S}
        printed == SeqSet(ev.blocks)
    IN
    /\ Mon("C13.Crashed", ev.exit = 0, ev.id, <<ev.exit, ev.stderr>>)
    /\ Mon("C13.BlockExtends", printed \subseteq P, ev.id, <<"not solutions", printed \ P>>)
    /\ IF ev.method = "satisfy"
       THEN /\ Mon("C13.UnsatExact", ev.exit # 0 \/ (ev.unsat <=> S = {}), ev.id,
                   <<"unsat printed", ev.unsat, "solutions", Cardinality(S)>>)
            /\ IF ev.all
               THEN /\ Mon("C13.AllComplete", ev.exit # 0 \/ S = {} \/ (printed = P /\ ev.complete), ev.id,
                           <<"missing", P \ printed, "complete", ev.complete>>)
               ELSE /\ Mon("C13.OneSolution", ev.exit # 0 \/ S = {} \/ Len(ev.blocks) >= 1, ev.id, ev.blocks)
                    /\ Mon("C13.Protocol", ~ev.complete \/ S = {}, ev.id, "========== without -a")
       ELSE /\ Mon("C13.UnsatExact", ev.exit # 0 \/ (ev.unsat <=> S = {}), ev.id,
                   <<"unsat printed", ev.unsat, "solutions", Cardinality(S)>>)
            /\ Mon("C13.LastIsOptimal",
                   ev.exit # 0 \/ S = {} \/
                     (/\ ev.complete /\ ev.blocks # <<>>
                      /\ \E a \in S : /\ ProjOf(ev, a) = ev.blocks[Len(ev.blocks)]
                                      /\ \A b \in S : FznObj(ev, a) <= FznObj(ev, b)),
                   ev.id, <<"last block", IF ev.blocks = <<>> THEN <<>> ELSE ev.blocks[Len(ev.blocks)],
                            "optimum", IF S = {} THEN 0 ELSE Min({FznObj(ev, b) : b \in S})>>)
    /\ UNCHANGED lastOpt

\* ------------------------------------------------------------------ the trace specification
TraceInit == l = 1 /\ lastOpt = <<>>
TraceNext ==
    /\ l <= Len(Rec) /\ l' = l + 1
    /\ LET ev == Rec[l] IN
       CASE ev.e = "CnfRun" -> TrCnf(ev)
         [] ev.e = "WcnfRun" -> TrWcnf(ev)
         [] ev.e = "FznRun" -> TrFzn(ev)
TraceSpec == TraceInit /\ [][TraceNext]_<<l, lastOpt>>
TraceAccepted ==
    LET d == TLCGet("stats").diameter IN
    IF d - 1 = Len(Rec) THEN PrintT("ENDJ " \o ToJson([accepted |-> TRUE, events |-> Len(Rec), matched |-> d - 1]))
    ELSE Print("ENDJ " \o ToJson([accepted |-> FALSE, events |-> Len(Rec), matched |-> d - 1,
                                  unmatched |-> IF d <= Len(Rec) THEN ToString(Rec[d]) ELSE "none"]), FALSE)
=============================================================================
