---------------------------- MODULE TimeTableRule ----------------------------
(* The rule of `synchronise` of the incremental time-table propagators (no incremental         *)
(* backtracking): the time-table has to be rebuilt from scratch if it was already marked, if  *)
(* it is non-empty, or - the repair, `fixed` - if updates were stored that were never applied.*)
(* Used by the design-level model (TimeTable.tla) and, with fixed = TRUE, by trace validation *)
(* of the real propagators (Trace.tla, event TT).                                             *)
SyncOutdated(fixed, outd, tableEmpty, hadUpdates) ==
    outd \/ ~tableEmpty \/ (fixed /\ hadUpdates)
=============================================================================
