-------------------------------- MODULE Notify --------------------------------
(* Design-level model of the notification protocol between the trail and the propagators      *)
(* (ConstraintSatisfactionSolver::{propagate, add_propagator}, watch lists, event drain).     *)
(*                                                                                            *)
(* Every change of a domain is a trail entry and an event; `propagate` delivers the events    *)
(* that have not been delivered yet to the propagators watching them.  A propagator that is   *)
(* registered reads the CURRENT domains when it initialises (`initialise_at_root`), so it     *)
(* must never be notified of a change that predates its registration - incremental            *)
(* propagators keep "old bound / new bound" state and assert that a notified bound really     *)
(* moved (LinearLessOrEqual: "propagator should only be triggered when lower bounds are       *)
(* tightened").                                                                               *)
(*                                                                                            *)
(* Events can be pending when a constraint is posted: the search loop polls its termination   *)
(* condition BEFORE it propagates, so a solve that is stopped right after conflict analysis   *)
(* posted a unit nogood at the root returns with that change undelivered.  As found           *)
(* (FIXED = FALSE, F45) `add_propagator` registered the new propagator first and propagated   *)
(* afterwards; the repaired version delivers the pending events first.                        *)
EXTENDS Naturals, FiniteSets, Sequences

CONSTANTS Props,       \* propagator identities that may be registered
          MaxTrail,    \* bound on the number of trail entries
          FIXED

VARIABLES trail,       \* number of trail entries (each one is also an event)
          processed,   \* events 1..processed have been delivered
          registered,  \* propagators registered so far
          snapshot,    \* [registered -> trail length the propagator read when it initialised]
          delivered    \* [registered -> set of events it was notified of]
vars == <<trail, processed, registered, snapshot, delivered>>

TypeOK == /\ trail \in 0..MaxTrail /\ processed \in 0..trail
          /\ registered \subseteq Props
          /\ snapshot \in [registered -> 0..MaxTrail]
          /\ delivered \in [registered -> SUBSET (1..MaxTrail)]

Init == trail = 0 /\ processed = 0 /\ registered = {} /\ snapshot = << >> /\ delivered = << >>

Pending == (processed + 1)..trail

(* a decision, a propagation, a unit nogood posted at the root after conflict analysis ... *)
Assign ==
    /\ trail < MaxTrail
    /\ trail' = trail + 1
    /\ UNCHANGED <<processed, registered, snapshot, delivered>>

(* `propagate`: every pending event reaches every registered propagator *)
Deliver(reg, del) == [p \in reg |-> del[p] \cup Pending]
Propagate ==
    /\ processed' = trail
    /\ delivered' = Deliver(registered, delivered)
    /\ UNCHANGED <<trail, registered, snapshot>>

(* `add_propagator` (possible at any time between two calls of the API, in particular right   *)
(* after a solve that the termination condition stopped with events pending)                  *)
AddPropagator(p) ==
    /\ p \notin registered
    /\ registered' = registered \cup {p}
    /\ snapshot' = [q \in registered' |-> IF q = p THEN trail ELSE snapshot[q]]
    /\ IF FIXED
         THEN \* pending events are delivered to the propagators registered so far, then p joins
              /\ delivered' = [q \in registered' |-> IF q = p THEN {} ELSE delivered[q] \cup Pending]
              /\ processed' = trail
         ELSE \* p joins, `propagate` runs afterwards and delivers the pending events to p as well
              /\ delivered' = [q \in registered' |-> IF q = p THEN Pending ELSE delivered[q] \cup Pending]
              /\ processed' = trail
    /\ UNCHANGED trail

Next == Assign \/ Propagate \/ \E p \in Props : AddPropagator(p)
Spec == Init /\ [][Next]_vars

(* a propagator is only notified of changes that happened after it read the domains *)
NoStaleNotification == \A p \in registered : \A i \in delivered[p] : i > snapshot[p]
(* and of all of them, once `propagate` has run *)
NothingMissed == \A p \in registered : (snapshot[p] + 1)..processed \subseteq delivered[p]
=============================================================================
