SPECIFICATION MCSpec
CONSTANTS
  MVars <- PigeonVars
  MCons <- PigeonCons
  MaxRestarts = 0
  SOUND = TRUE
INVARIANT LearnedImplied
INVARIANT AnswerRight
INVARIANT TrailSound
INVARIANT ConflictIsTrue
INVARIANT ReasonsAligned
CHECK_DEADLOCK FALSE
PROPERTY Terminates
