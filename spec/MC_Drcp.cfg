INIT Init
NEXT Next
