CONSTANTS
  Bytes <- MCBytes
  MaxClauses = 2
  MaxLits = 2
  MaxDigits = 1
  FIXED = FALSE
  GenLen = 0
  TrackInput = FALSE
INIT Init
NEXT Next
CONSTRAINT Bounded
INVARIANT SameReading
CHECK_DEADLOCK FALSE
