-------------------------- MODULE MC_Constraints --------------------------
(* Cross-checks of the two error-prone definitions of Constraints.tla against independently     *)
(* written ones, exhaustively on small ranges.  Checked by TLC as ASSUMEs (constant level).      *)
EXTENDS Constraints, TLC

R == -7..7
ASSUME DivAgree ==
    \A n \in R, d \in R \ {0}, q \in R :
        (TruncDiv(n, d) = q) <=> TruncDivRel(n, d, q)

V(i) == [v |-> i, s |-> 1, o |-> 0]
\* three tasks, all start triples in -2..3, durations/usages from a grid, capacities 0..3
CumCases ==
    { [k |-> "cumulative", s |-> <<V(1), V(2), V(3)>>, d |-> d, r |-> r, cap |-> cap] :
        d \in {<<0,1,2>>, <<2,2,1>>, <<3,1,0>>, <<1,1,1>>}, r \in {<<1,1,1>>, <<2,1,0>>, <<1,2,3>>},
        cap \in 0..3 }
ASSUME CumAgree ==
    \A c \in CumCases : \A a \in Asgs(<<-2..3, -2..3, -2..3>>) :
        Holds(c, a) <=> CumulativeAllPoints(c, a)

\* views through negative scales and the documented element indexing
ASSUME ElementZeroBased ==
    LET c == [k |-> "element", idx |-> V(1), xs |-> <<V(2), V(3)>>, y |-> V(4)]
    IN  /\ Holds(c, <<0, 5, 6, 5>>) /\ Holds(c, <<1, 5, 6, 6>>)
        /\ ~Holds(c, <<2, 5, 6, 6>>) /\ ~Holds(c, <<-1, 5, 6, 5>>)

VARIABLE x
Init == x = 0
Next == UNCHANGED x
=============================================================================
