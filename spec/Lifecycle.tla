----------------------------- MODULE Lifecycle -----------------------------
(***************************************************************************)
(* The life-cycle of one solver object (CSPSolverState + decision level)    *)
(* under EVERY history of public calls: property C10 at the design level.   *)
(*                                                                         *)
(* Transcribed from constraint_satisfaction_solver.rs (declare_*,           *)
(* initialise, solve_under_assumptions, restore_state_at_root, add_clause,  *)
(* add_nogood, add_propagator, create_new_integer_variable) and the public   *)
(* wrappers in api/solver.rs, api/outputs (satisfy, satisfy_under_assump-   *)
(* tions + UnsatisfiableUnderAssumptions::drop, SolutionIterator, both      *)
(* optimisation procedures).  One action per call into the engine, the      *)
(* outcome of a search is chosen nondeterministically.                      *)
(*                                                                         *)
(* FIXED = FALSE is restore_state_at_root as found at the pinned commit     *)
(* (finding F1): the invariant NoPanic must then be violated.               *)
(***************************************************************************)
EXTENDS Naturals, Sequences

CONSTANT FIXED

VARIABLES st,       \* CSPSolverStateInternal
          lvl,      \* decision level: 0 (root) or 1 (anything deeper)
          pc,       \* what the client-visible call is doing
          panicked, \* an assertion of the library failed
          hist      \* the public calls made so far (for counterexamples only; bounded)

vars == <<st, lvl, pc, panicked, hist>>
view == <<st, lvl, pc, panicked>>     \* hist is an observation only

States == {"Ready", "Solving", "ContainsSolution", "Conflict", "Infeasible", "InfUA", "Timeout"}
Inconsistent(s) == s \in {"Conflict", "Infeasible", "InfUA"}
P(tag) == <<tag, "", "">>          \* pc is always a triple <<phase, kind of call, engine flag>>

Init == st = "Ready" /\ lvl = 0 /\ pc = P("idle") /\ panicked = FALSE /\ hist = <<>>

Log(c) == hist' = IF Len(hist) < 6 THEN Append(hist, c) ELSE hist

\* ---- restore_state_at_root
Restored ==
    IF lvl # 0 THEN [st |-> "Ready", lvl |-> 0]
    ELSE IF FIXED /\ st \in {"ContainsSolution", "Timeout"} THEN [st |-> "Ready", lvl |-> 0]
    ELSE [st |-> st, lvl |-> 0]

\* ---- solve_under_assumptions: the call into the engine
\* inconsistent: returns Infeasible at once; otherwise initialise() (two assertions) and search
BeginSolve(kind) ==
    /\ pc = P("idle") /\ ~panicked
    /\ Log(kind)
    /\ IF Inconsistent(st)
       THEN /\ pc' = <<"ret", kind, "Infeasible">> /\ UNCHANGED <<st, lvl, panicked>>
       ELSE IF st = "InfUA" \/ ~((st = "Ready" \/ st = "Conflict") /\ st # "Infeasible")
            THEN panicked' = TRUE /\ UNCHANGED <<st, lvl, pc>>
            ELSE st' = "Solving" /\ pc' = <<"search", kind, "">> /\ UNCHANGED <<lvl, panicked>>

\* solve_internal, one step per state declaration of the code: decisions deepen the level;
\* a conflict is declared by propagation (any level); at the root it ends the search as
\* Infeasible, deeper it is analysed, the search backjumps and `declare_solving` is called again
Search ==
    /\ pc[1] = "search"
    /\ \/ st = "Solving" /\ lvl' = 1 /\ UNCHANGED <<st, pc>>                                  \* decision
       \/ st = "Solving" /\ st' = "Conflict" /\ UNCHANGED <<lvl, pc>>                           \* conflict
       \/ st = "Conflict" /\ lvl = 1 /\ st' = "Solving" /\ lvl' \in {0, 1} /\ UNCHANGED pc        \* resolved
       \/ st = "Conflict" /\ lvl = 0 /\ st' = "Infeasible" /\ pc' = <<"ret", pc[2], "Infeasible">> /\ UNCHANGED lvl
       \/ st = "Solving" /\ st' = "Timeout" /\ pc' = <<"ret", pc[2], "Timeout">> /\ UNCHANGED lvl
       \/ st = "Solving" /\ st' = "ContainsSolution" /\ pc' = <<"ret", pc[2], "Feasible">> /\ UNCHANGED lvl
       \/ /\ st = "Solving" /\ pc[2] \in {"assume", "lus"} /\ st' = "InfUA" /\ lvl' = 1   \* failed assumption
          /\ pc' = <<"ret", pc[2], "Infeasible">>
    /\ UNCHANGED <<panicked, hist>>

\* the public wrappers after the engine returned
Return ==
    /\ pc[1] = "ret"
    /\ LET kind == pc[2] flag == pc[3] r == Restored IN
       CASE kind = "satisfy" ->          \* Solver::satisfy, also each SolutionIterator::next_solution
              st' = r.st /\ lvl' = r.lvl /\ pc' = P("idle")
         [] kind = "assume" ->
              IF flag = "Infeasible" /\ st = "InfUA"
              THEN pc' = P("handle") /\ UNCHANGED <<st, lvl>>        \* UnsatisfiableUnderAssumptions
              ELSE st' = r.st /\ lvl' = r.lvl /\ pc' = P("idle")
         [] kind = "lsu" ->              \* LinearSatUnsat: restore, then strengthen + solve again, or stop
              /\ st' = r.st /\ lvl' = r.lvl
              /\ pc' = IF flag = "Feasible" THEN P("lsu-strengthen") ELSE P("idle")
         [] kind = "lus" ->              \* LinearUnsatSat: restore; refuted bound -> add clause and loop
              /\ st' = r.st /\ lvl' = r.lvl
              /\ pc' \in (IF flag = "Infeasible" /\ st = "InfUA" THEN {P("lus-clause")}
                          ELSE IF flag = "Feasible" THEN {P("lus-loop"), P("idle")} ELSE {P("idle")})
    /\ UNCHANGED <<panicked, hist>>

\* core extraction needs the InfUA state; dropping the handle restores
Handle ==
    /\ pc = P("handle")
    /\ \/ /\ panicked' = (st # "InfUA") /\ UNCHANGED <<st, lvl, pc>>           \* extract_core
       \/ /\ st' = Restored.st /\ lvl' = Restored.lvl /\ pc' = P("idle") /\ UNCHANGED panicked   \* drop
    /\ UNCHANGED hist

\* ---- adding to the model (root only: both assert the decision level)
AddClause(next) ==          \* add_clause / add_nogood
    IF lvl # 0 THEN panicked' = TRUE /\ UNCHANGED <<st, lvl, pc>>
    ELSE IF Inconsistent(st) THEN pc' = next /\ UNCHANGED <<st, lvl, panicked>>     \* Err
    ELSE /\ st' \in {st,             \* added, possibly with root propagation
                     "Conflict"}     \* all falsified / addition conflicts / propagation conflicts
         /\ pc' = next /\ UNCHANGED <<lvl, panicked>>

Post ==                     \* add_propagator: root conflict while initialising -> Infeasible;
    /\ pc = P("idle") /\ ~panicked /\ Log("post")     \* conflict in the propagation after it -> stays Conflict
    /\ IF Inconsistent(st) THEN UNCHANGED <<st, lvl, pc, panicked>>
       ELSE /\ \/ UNCHANGED <<st, pc>>
               \/ st' = "Conflict" /\ pc' \in {P("idle"), P("post-infeasible")}
            /\ UNCHANGED <<lvl, panicked>>
PostInfeasible == /\ pc = P("post-infeasible") /\ st' = "Infeasible" /\ pc' = P("idle")
                  /\ UNCHANGED <<lvl, panicked, hist>>

ClientClause == pc = P("idle") /\ ~panicked /\ Log("clause") /\ AddClause(P("idle"))
LsuStrengthen == pc = P("lsu-strengthen") /\ AddClause(P("lsu-next")) /\ UNCHANGED hist
LusClause == pc = P("lus-clause") /\ AddClause(P("lus-loop")) /\ UNCHANGED hist
\* after strengthening LSU solves again (or concludes when the clause was refused); LUS solves
\* under the next assumption
LsuNext == /\ pc = P("lsu-next") /\ pc' = P("idle") /\ UNCHANGED <<st, lvl, panicked, hist>>
InnerSolve(kind, at) ==
    /\ pc = P(at) /\ ~panicked
    /\ IF Inconsistent(st)
       THEN /\ pc' = <<"ret", kind, "Infeasible">> /\ UNCHANGED <<st, lvl, panicked>>
       ELSE IF st = "InfUA" \/ ~((st = "Ready" \/ st = "Conflict") /\ st # "Infeasible")
            THEN panicked' = TRUE /\ UNCHANGED <<st, lvl, pc>>
            ELSE st' = "Solving" /\ pc' = <<"search", kind, "">> /\ UNCHANGED <<lvl, panicked>>
    /\ UNCHANGED hist

\* create_new_integer_variable asserts a consistent state and the root level. The consistent
\* state is an explicit, documented assertion of the library (a precondition the client can
\* observe: post() returned an error); the root level is what C10 promises after every return.
NewVar ==
    /\ pc = P("idle") /\ ~panicked /\ ~Inconsistent(st) /\ Log("newvar")
    /\ panicked' = (lvl # 0) /\ UNCHANGED <<st, lvl, pc>>

Next ==
    \/ \E k \in {"satisfy", "assume", "lsu", "lus"} : BeginSolve(k)
    \/ Search \/ Return \/ Handle
    \/ Post \/ PostInfeasible \/ ClientClause \/ NewVar
    \/ LsuStrengthen \/ LusClause \/ LsuNext
    \/ InnerSolve("lsu", "lsu-next") \/ InnerSolve("lus", "lus-loop")

Spec == Init /\ [][Next]_vars

\* C10: no sequence of valid calls makes an assertion of the library fail ...
NoPanic == ~panicked
\* ... and between calls the solver is at the root in a state from which every call is accepted
UsableBetweenCalls == pc = P("idle") => lvl = 0 /\ st \in {"Ready", "Conflict", "Infeasible"}
TypeOK == st \in States /\ lvl \in {0, 1}
=============================================================================
