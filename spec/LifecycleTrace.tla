--------------------------- MODULE LifecycleTrace ---------------------------
(***************************************************************************)
(* Conformance of the real solver with Lifecycle.tla: the sequence of state *)
(* declarations (hook event `State`, emitted inside every declare_* of      *)
(* CSPSolverState) recorded from executions of the library must be the      *)
(* st-projection of a behaviour of Lifecycle.  Level and program counter    *)
(* are not logged: TLC searches for them (every specification step that      *)
(* leaves st unchanged is a silent step between two events).                *)
(* Acceptance: a state with all events consumed is reachable, i.e. the      *)
(* "invariant" NotAllConsumed is VIOLATED; the trace is rejected when TLC    *)
(* finishes without reaching the end (progress is printed every 100 events  *)
(* so that the first unexplained declaration can be located).               *)
(***************************************************************************)
EXTENDS Lifecycle, Json, IOUtils, TLC, TLCExt

VARIABLE l

Rec == TLCEval(ndJsonDeserialize(IOEnv.TRACE))
N == Len(Rec)

Name(s) == IF s = "InfeasibleUnderAssumptions" THEN "InfUA" ELSE s

TInit == TLCSet(1, 1) /\ Init /\ l = 1

\* a silent step of the specification: st keeps its value
Silent == l <= N /\ Next /\ st' = st /\ l' = l

Consume ==
    /\ l <= N /\ l' = l + 1
    /\ IF Rec[l].e = "Reset"
       THEN st' = "Ready" /\ lvl' = 0 /\ pc' = P("idle") /\ panicked' = FALSE /\ hist' = <<>>
       ELSE \* a state declaration: either a step of the specification that declares it, or a
            \* re-declaration of the state the solver is already in
            \/ Next /\ st' = Name(Rec[l].s) /\ (st' # st \/ Rec[l].s = st)
            \/ Name(Rec[l].s) = st /\ UNCHANGED vars

TNext == Silent \/ Consume
TSpec == TInit /\ [][TNext]_<<vars, l>>
tview == <<st, lvl, pc, panicked, l>>

\* the longest prefix matched is reported every 100 events (registers are per worker: run with one)
Progress ==
    IF TLCGet(1) < l
    THEN /\ TLCSet(1, l)
         /\ (l % 100 # 0 \/ PrintT("PROGRESS " \o ToString(l)))
    ELSE TRUE
NotAllConsumed == Progress /\ l <= N
=============================================================================
