CONSTANTS
  Lits <- MCLits
  Ids <- MCIds
  Tags <- MCTags
  Labels <- MCLabels
  FIXED = FALSE
  Depth = 1
  Reduced = FALSE
INIT Init
NEXT Next
INVARIANT RoundTripAll
CHECK_DEADLOCK FALSE
