------------------------------- MODULE Witness -------------------------------
(***************************************************************************)
(* Trace specification for models far beyond the enumeration oracle         *)
(* (hundreds of variables): implication chains deeper than the recursion    *)
(* limit of the nogood minimiser, several n-queens boards next to free      *)
(* variables, cumulative instances with a dozen tasks.                      *)
(*                                                                         *)
(* Sol(M) cannot be enumerated at this size, so the scenario carries        *)
(* PLANTED solutions (event Witness).  Nothing about them is trusted: the   *)
(* Witness action is enabled only if TLC finds the assignment inside the    *)
(* declared domains and satisfying every posted constraint under            *)
(* Constraints!Holds - an invalid witness rejects the trace.  With a        *)
(* non-empty set of verified solutions the recorded answers are decided:    *)
(*   Return SAT / IterSolution / Callback                                   *)
(*          the assignment is total, inside the domains and satisfies every *)
(*          constraint (direct evaluation of Holds);                        *)
(*   Return UNSAT, IterEnd before any solution, a failed post               *)
(*          wrong, since a verified solution exists;                        *)
(*   Learned                                                                *)
(*          a learned nogood is implied by the model, hence no solution may *)
(*          make all of its predicates true: checked for every verified     *)
(*          solution (a necessary condition of C02's NogoodImplied);        *)
(*   IterSolution                                                           *)
(*          no assignment is yielded twice;                                 *)
(*   Return OPTIMAL                                                         *)
(*          the objective is at least as good as that of every verified     *)
(*          solution;                                                       *)
(*   Panic / Hang / poll cap of 500 000                                     *)
(*          as in Trace.tla.                                                *)
(* The labels are those of Trace.tla, so that adoption maps and known       *)
(* findings apply unchanged.                                                *)
(***************************************************************************)
EXTENDS Constraints, Json, IOUtils, TLC, TLCExt

VARIABLES l, scn, doms, cons, wit, failedPost, yielded, call

wvars == <<l, scn, doms, cons, wit, failedPost, yielded, call>>

Rec == TLCEval(ndJsonDeserialize(IOEnv.TRACE))

Mon(label, ok, witness) ==
    IF ok THEN TRUE
    ELSE PrintT("MONJ " \o ToJson([mon |-> label, fam |-> scn[1], id |-> scn[2], i |-> l,
                                   w |-> ToString(witness)]))

SeqSet(s) == {s[i] : i \in DOMAIN s}
InDomains(a) == Len(a) = Len(doms) /\ \A v \in DOMAIN doms : a[v] \in doms[v]
Violated(a) == {i \in DOMAIN cons : ~Holds(cons[i], a)}
IsSolution(a) == InDomains(a) /\ Violated(a) = {}
AllTrueIn(ps, a) == \A i \in DOMAIN ps : TrueP(ps[i], a)
\* short witness for a monitor: the indices of the violated constraints, not the 600 values
Why(a) == IF InDomains(a) THEN <<"violated constraints", Violated(a)>>
          ELSE <<"outside the domains / partial at", {v \in DOMAIN doms : v > Len(a) \/ a[v] \notin doms[v]}>>

NoCall == [api |-> "none", obj |-> [v |-> 1, s |-> 1, o |-> 0], maximise |-> FALSE, max |-> 0]

Init ==
    /\ l = 1 /\ scn = <<"none", 0>> /\ doms = <<{1}>> /\ cons = <<>> /\ wit = {}
    /\ failedPost = FALSE /\ yielded = {} /\ call = NoCall

Step(e) ==
    CASE e.e = "Reset" ->
            /\ scn' = <<e.fam, e.id>> /\ doms' = <<{1}>> /\ cons' = <<>> /\ wit' = {}
            /\ failedPost' = FALSE /\ yielded' = {} /\ call' = NoCall
      [] e.e = "NewVar" ->
            /\ e.v = Len(doms) + 1                                   \* binding: ids are dense
            /\ doms' = Append(doms, SeqSet(e.vals))
            /\ UNCHANGED <<scn, cons, wit, failedPost, yielded, call>>
      [] e.e = "Post" ->
            /\ cons' = Append(cons, e.c)
            /\ UNCHANGED <<scn, doms, wit, failedPost, yielded, call>>
      [] e.e = "PostEnd" ->
            /\ failedPost' = (failedPost \/ ~e.ok)
            /\ UNCHANGED <<scn, doms, cons, wit, yielded, call>>
      [] e.e = "Witness" ->
            \* binding condition: the planted assignment is verified, not believed
            /\ IsSolution(e.vals)
            /\ wit' = wit \cup {e.vals}
            /\ Mon("C02.UnsatRight", ~failedPost, "a post was refused although a verified solution exists")
            /\ UNCHANGED <<scn, doms, cons, failedPost, yielded, call>>
      [] e.e = "Call" ->
            /\ call' = [api |-> e.api,
                        obj |-> IF "obj" \in DOMAIN e THEN e.obj ELSE NoCall.obj,
                        maximise |-> IF "maximise" \in DOMAIN e THEN e.maximise ELSE FALSE,
                        max |-> IF "max" \in DOMAIN e THEN e.max ELSE 0]
            /\ yielded' = {}
            /\ UNCHANGED <<scn, doms, cons, wit, failedPost>>
      [] e.e = "Learned" ->
            /\ Mon("C02.NogoodImplied", \A a \in wit : ~AllTrueIn(e.nogood, a),
                   <<e.nogood, "excludes a verified solution">>)
            /\ UNCHANGED <<scn, doms, cons, wit, failedPost, yielded, call>>
      [] e.e \in {"IterSolution", "Callback"} ->
            /\ Mon(IF e.e = "Callback" THEN "C04.CallbackIsSolution" ELSE "C03.IsSolution",
                   IsSolution(e.sol), Why(e.sol))
            /\ Mon("C03.NoRepeat", e.e = "Callback" \/ e.sol \notin yielded, "yielded twice")
            /\ yielded' = yielded \cup {e.sol}
            /\ UNCHANGED <<scn, doms, cons, wit, failedPost, call>>
      [] e.e = "IterEnd" ->
            /\ Mon("C03.Complete", e.kind = "UNKNOWN" \/ wit \subseteq yielded \/ Cardinality(yielded) >= call.max,
                   <<"ended", e.kind, "without yielding every verified solution">>)
            /\ UNCHANGED <<scn, doms, cons, wit, failedPost, yielded, call>>
      [] e.e = "Return" ->
            /\ Mon("C02.NoTermination", ~(e.capped /\ e.polls >= 500000), e.polls)
            /\ CASE e.res = "SAT" /\ e.api = "satisfy" ->
                      /\ Mon("C01.Total", InDomains(e.sol), Why(e.sol))
                      /\ Mon("C01.SolutionHolds", ~InDomains(e.sol) \/ Violated(e.sol) = {}, Why(e.sol))
                 [] e.res = "UNSAT" ->
                      Mon(IF e.api = "optimise" THEN "C04.UnsatRight" ELSE "C02.UnsatRight", wit = {},
                          "Unsatisfiable although a verified solution exists")
                 [] e.res = "OPTIMAL" ->
                      /\ Mon("C04.OptimalIsSolution", IsSolution(e.sol), Why(e.sol))
                      /\ Mon("C04.OptimalIsBest",
                             \A a \in wit : IF call.maximise THEN Val(call.obj, e.sol) >= Val(call.obj, a)
                                            ELSE Val(call.obj, e.sol) <= Val(call.obj, a),
                             <<"objective", Val(call.obj, e.sol), "a verified solution is better">>)
                 [] OTHER -> TRUE
            /\ call' = NoCall
            /\ UNCHANGED <<scn, doms, cons, wit, failedPost, yielded>>
      [] e.e = "Panic" ->
            /\ Mon("C10.NoPanic", FALSE, e.msg)
            /\ UNCHANGED <<scn, doms, cons, wit, failedPost, yielded, call>>
      [] e.e = "Hang" ->
            /\ Mon("C10.NoHang", FALSE, e.limit_s)
            /\ Mon("C02.NoTermination", FALSE, e.limit_s)
            /\ UNCHANGED <<scn, doms, cons, wit, failedPost, yielded, call>>
      [] OTHER -> UNCHANGED <<scn, doms, cons, wit, failedPost, yielded, call>>

Next ==
    /\ l <= Len(Rec)
    /\ l' = l + 1
    /\ Step(Rec[l])

Spec == Init /\ [][Next]_wvars

TraceAccepted ==
    LET d == TLCGet("stats").diameter IN
    IF d - 1 = Len(Rec) THEN PrintT("ENDJ " \o ToJson([accepted |-> TRUE, events |-> Len(Rec), matched |-> d - 1]))
    ELSE Print("ENDJ " \o ToJson([accepted |-> FALSE, events |-> Len(Rec), matched |-> d - 1,
                                  unmatched |-> IF d <= Len(Rec) THEN ToString(Rec[d].e) ELSE "none"]), FALSE)
=============================================================================
