---------------------------- MODULE NotifyProofs ----------------------------
(* TLAPS: with the repaired registration order no propagator is ever notified of a change     *)
(* that predates its registration - for any set of propagators and any trail length.           *)
(*   check:  tlapm --threads 8 NotifyProofs.tla                                                *)
EXTENDS Notify, TLAPS

ASSUME FixedAssumption == FIXED = TRUE
ASSUME ConstAssumption == MaxTrail \in Nat

IndInv == /\ TypeOK
          /\ NoStaleNotification
          /\ \A p \in registered : snapshot[p] <= processed

THEOREM InitInv == Init => IndInv
  BY ConstAssumption DEF Init, IndInv, TypeOK, NoStaleNotification

LEMMA AssignInv == ASSUME IndInv, Assign PROVE IndInv'
  <1> USE ConstAssumption
  <1>1. TypeOK'
    BY DEF Assign, IndInv, TypeOK
  <1>2. NoStaleNotification' /\ (\A p \in registered : snapshot[p] <= processed)'
    BY DEF Assign, IndInv, NoStaleNotification
  <1> QED BY <1>1, <1>2 DEF IndInv

LEMMA PropagateInv == ASSUME IndInv, Propagate PROVE IndInv'
  <1> USE ConstAssumption
  <1>0. registered' = registered /\ snapshot' = snapshot /\ trail' = trail /\ processed' = trail
    BY DEF Propagate
  <1>1. delivered' = [p \in registered |-> delivered[p] \cup Pending]
    BY DEF Propagate, Deliver
  <1>2. Pending \subseteq 1..MaxTrail
    BY DEF Pending, IndInv, TypeOK
  <1>3. TypeOK'
    BY <1>0, <1>1, <1>2 DEF IndInv, TypeOK
  <1>4. NoStaleNotification'
    <2> SUFFICES ASSUME NEW p \in registered, NEW i \in delivered'[p] PROVE i > snapshot[p]
      BY <1>0 DEF NoStaleNotification
    <2>1. i \in delivered[p] \/ i \in Pending
      BY <1>1
    <2>2. CASE i \in delivered[p]
      BY <2>2 DEF IndInv, NoStaleNotification
    <2>3. CASE i \in Pending
      BY <2>3 DEF Pending, IndInv, TypeOK
    <2> QED BY <2>1, <2>2, <2>3
  <1>5. \A p \in registered : snapshot[p] <= trail
    BY DEF IndInv, TypeOK
  <1> QED BY <1>0, <1>3, <1>4, <1>5 DEF IndInv

LEMMA AddInv == ASSUME IndInv, NEW p \in Props, AddPropagator(p) PROVE IndInv'
  <1> USE ConstAssumption, FixedAssumption
  <1>0. /\ p \notin registered /\ registered' = registered \cup {p} /\ trail' = trail /\ processed' = trail
        /\ snapshot' = [q \in registered' |-> IF q = p THEN trail ELSE snapshot[q]]
        /\ delivered' = [q \in registered' |-> IF q = p THEN {} ELSE delivered[q] \cup Pending]
    BY DEF AddPropagator
  <1>2. Pending \subseteq 1..MaxTrail
    BY DEF Pending, IndInv, TypeOK
  <1>3. TypeOK'
    BY <1>0, <1>2 DEF IndInv, TypeOK
  <1>4. NoStaleNotification'
    <2> SUFFICES ASSUME NEW q \in registered', NEW i \in delivered'[q] PROVE i > snapshot'[q]
      BY DEF NoStaleNotification
    <2>1. CASE q = p
      BY <2>1, <1>0
    <2>2. CASE q # p
      <3>1. q \in registered /\ snapshot'[q] = snapshot[q] /\ delivered'[q] = delivered[q] \cup Pending
        BY <2>2, <1>0
      <3>2. CASE i \in delivered[q]
        BY <3>1, <3>2 DEF IndInv, NoStaleNotification
      <3>3. CASE i \in Pending
        BY <3>1, <3>3 DEF Pending, IndInv, TypeOK
      <3> QED BY <3>1, <3>2, <3>3
    <2> QED BY <2>1, <2>2
  <1>5. \A q \in registered' : snapshot'[q] <= processed'
    BY <1>0 DEF IndInv, TypeOK
  <1> QED BY <1>3, <1>4, <1>5 DEF IndInv

THEOREM StepInv == IndInv /\ [Next]_vars => IndInv'
  <1> SUFFICES ASSUME IndInv, [Next]_vars PROVE IndInv'
    OBVIOUS
  <1>1. CASE UNCHANGED vars
    BY <1>1 DEF vars, IndInv, TypeOK, NoStaleNotification
  <1>2. CASE Assign
    BY <1>2, AssignInv
  <1>3. CASE Propagate
    BY <1>3, PropagateInv
  <1>4. CASE \E p \in Props : AddPropagator(p)
    BY <1>4, AddInv
  <1> QED BY <1>1, <1>2, <1>3, <1>4 DEF Next

THEOREM Safety == Spec => []NoStaleNotification
  <1>1. Spec => []IndInv
    BY InitInv, StepInv, PTL DEF Spec
  <1>2. IndInv => NoStaleNotification
    BY DEF IndInv
  <1> QED BY <1>1, <1>2, PTL
=============================================================================
