------------------------------- MODULE TimeTable -------------------------------
(* Design-level model of the protocol between the engine and an INCREMENTAL cumulative        *)
(* time-table propagator that sits behind a reification wrapper                               *)
(* (pumpkin-solver/src/propagators/reified_propagator.rs and                                  *)
(*  .../cumulative/time_table/{over_interval,per_point}_incremental_propagator).              *)
(*                                                                                            *)
(* The engine calls  notify  (a start variable changed),  propagate  and  synchronise  (after *)
(* backtracking).  The incremental propagators keep a time-table and a list of updates that   *)
(* `notify` stored and `propagate` has not applied yet.  The wrapper forwards every `notify`  *)
(* and every `synchronise`, but calls the wrapped `propagate` only while the reification      *)
(* literal is true.  The property every answer of the constraint rests on:                    *)
(*                                                                                            *)
(*   Current:  whenever the wrapped propagator has propagated, its time-table is the          *)
(*             time-table of the current domains (what the from-scratch propagator builds).   *)
(*                                                                                            *)
(* One action per entry point of the code; abstraction: a task either has a mandatory part    *)
(* (its start variable was fixed at some decision level) or it has none.                      *)
(*                                                                                            *)
(* As found (FIXED = FALSE) `synchronise` without incremental backtracking discarded the      *)
(* stored updates and marked the time-table outdated only if it was non-empty: updates that   *)
(* were never applied (literal unassigned) were lost - TimeTable_asfound.cfg must violate     *)
(* Current.  The operator SyncOutdated is the rule the code is held to in trace validation    *)
(* (Trace.tla, events TTSync / TTProp).                                                       *)
EXTENDS Naturals, FiniteSets, TimeTableRule

CONSTANTS Tasks,      \* task identities
          MaxLevel,   \* decision levels 0..MaxLevel
          INCR,       \* CumulativePropagatorOptions::incremental_backtracking
          FIXED       \* TRUE: repaired synchronise; FALSE: as found at the pinned commit

NONE == MaxLevel + 1
Level == 0..MaxLevel

VARIABLES lvl,        \* current decision level
          fixedAt,    \* [Tasks -> Level \cup {NONE}]: level at which the task got its mandatory part
          litAt,      \* level at which the reification literal was assigned, NONE if unassigned
          litVal,     \* its value (meaningful when litAt # NONE)
          addP,       \* stored updates: mandatory parts to add to the time-table
          remP,       \* stored updates: mandatory parts to remove (incremental backtracking only)
          table,      \* tasks whose mandatory part is in the time-table
          outdated,   \* is_time_table_outdated
          enq,        \* the wrapper is in the propagation queue
          justProp    \* the wrapped propagate has just returned (for the invariant)
vars == <<lvl, fixedAt, litAt, litVal, addP, remP, table, outdated, enq, justProp>>

Mandatory == {t \in Tasks : fixedAt[t] # NONE}
LitTrue == litAt # NONE /\ litVal

TypeOK == /\ lvl \in Level
          /\ fixedAt \in [Tasks -> Level \cup {NONE}]
          /\ litAt \in Level \cup {NONE}
          /\ litVal \in BOOLEAN
          /\ addP \subseteq Tasks /\ remP \subseteq Tasks /\ table \subseteq Tasks
          /\ outdated \in BOOLEAN /\ enq \in BOOLEAN /\ justProp \in BOOLEAN

Init == /\ lvl = 0
        /\ fixedAt = [t \in Tasks |-> NONE]
        /\ litAt = NONE /\ litVal = FALSE
        /\ addP = {} /\ remP = {} /\ table = {}
        /\ outdated = FALSE /\ enq = FALSE /\ justProp = FALSE

(* the rule of `synchronise` is SyncOutdated of TimeTableRule.tla (one source of truth, also *)
(* used by Trace.tla)                                                                         *)

(* `notify` of the wrapped propagator: the update is stored; the wrapper passes the enqueue   *)
(* decision on only if the literal is true (detect_inconsistency is not modelled: the         *)
(* incremental propagators do not implement it).                                              *)
Notify(t) ==
    /\ addP' = IF t \in remP THEN addP ELSE addP \cup {t}
    /\ remP' = remP \ {t}
    /\ enq' = (enq \/ LitTrue)

(* the start variable of t is fixed by a decision (new level) or by propagation (same level) *)
FixTask(t, newLevel) ==
    /\ fixedAt[t] = NONE
    /\ IF newLevel THEN ~enq /\ lvl < MaxLevel /\ lvl' = lvl + 1 ELSE lvl' = lvl
    /\ fixedAt' = [fixedAt EXCEPT ![t] = lvl']
    /\ Notify(t)
    /\ UNCHANGED <<litAt, litVal, table, outdated>>
    /\ justProp' = FALSE

(* the reification literal is assigned (decision or propagation): the wrapper is enqueued *)
SetLit(b, newLevel) ==
    /\ litAt = NONE
    /\ IF newLevel THEN ~enq /\ lvl < MaxLevel /\ lvl' = lvl + 1 ELSE lvl' = lvl
    /\ litAt' = lvl' /\ litVal' = b
    /\ enq' = TRUE
    /\ UNCHANGED <<fixedAt, addP, remP, table, outdated>>
    /\ justProp' = FALSE

(* `propagate` of the wrapper *)
Propagate ==
    /\ enq
    /\ enq' = FALSE
    /\ IF LitTrue
         THEN /\ IF outdated
                   THEN table' = Mandatory               \* rebuilt from scratch
                   ELSE table' = (table \ remP) \cup addP  \* stored updates applied
              /\ addP' = {} /\ remP' = {}
              /\ outdated' = FALSE
              /\ justProp' = TRUE
         ELSE /\ UNCHANGED <<table, addP, remP, outdated>>
              /\ justProp' = FALSE
    /\ UNCHANGED <<lvl, fixedAt, litAt, litVal>>

(* backtracking to level k: `notify_backtrack` (incremental backtracking only) and then       *)
(* `synchronise`, both forwarded by the wrapper whatever the literal is                       *)
Backtrack(k) ==
    /\ k < lvl
    /\ lvl' = k
    /\ LET undone == {t \in Tasks : fixedAt[t] # NONE /\ fixedAt[t] > k} IN
       /\ fixedAt' = [t \in Tasks |-> IF t \in undone THEN NONE ELSE fixedAt[t]]
       /\ IF INCR
            THEN \* an addition that was never applied is cancelled, an applied part is removed
                 /\ addP' = addP \ undone
                 /\ remP' = remP \cup (undone \cap table)
                 /\ outdated' = outdated
            ELSE \* the bounds are reset: every stored update is dropped
                 /\ addP' = {} /\ remP' = {}
                 /\ outdated' = SyncOutdated(FIXED, outdated, table = {}, addP # {} \/ remP # {})
    /\ IF litAt # NONE /\ litAt > k
         THEN litAt' = NONE /\ litVal' = FALSE
         ELSE UNCHANGED <<litAt, litVal>>
    /\ enq' = FALSE                    \* the queue is cleared on backtracking
    /\ UNCHANGED table
    /\ justProp' = FALSE

Next == \/ \E t \in Tasks, n \in BOOLEAN : FixTask(t, n)
        \/ \E b \in BOOLEAN, n \in BOOLEAN : SetLit(b, n)
        \/ Propagate
        \/ \E k \in Level : Backtrack(k)

Spec == Init /\ [][Next]_vars

(* ---- properties ---- *)
Current == justProp => table = Mandatory

(* whenever nothing is stored and the table is not marked outdated, the table is current      *)
(* (the inductive strengthening that the repaired synchronise restores)                       *)
Tracked == (FIXED /\ ~outdated) => ((table \ remP) \cup addP = Mandatory)

(* (the engine reaches the propagation fixed point before the next decision: new levels are   *)
(*  opened only with an empty queue)                                                          *)
=================================================================================
