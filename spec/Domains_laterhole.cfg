SPECIFICATION Spec
CONSTANTS
  Lo = 0
  Hi = 3
  MaxTrail = 5
  MaxLevel = 2
  BUG = "laterhole"
INVARIANT NowAgrees
INVARIANT EmptyAgrees
INVARIANT ThenAgrees
INVARIANT InfoAgrees
INVARIANT StacksOrdered
CHECK_DEADLOCK FALSE
