------------------------------- MODULE Engine -------------------------------
(***************************************************************************)
(* The lazy-clause-generation engine of Pumpkin and the solver object       *)
(* around it, as a state machine.  One action per critical section of       *)
(* engine/constraint_satisfaction_solver.rs, the resolvers, the nogood      *)
(* propagator and api/solver.rs (file/line references at each action).      *)
(*                                                                         *)
(* The state is abstract where the property is abstract (domains are sets   *)
(* of values; Domains.tla has the concrete stacks) and concrete where the   *)
(* binding needs it (the trail has exactly one entry per entry of the       *)
(* code's trail, so trail positions and decision levels can be compared).   *)
(*                                                                         *)
(* Actions take the values the implementation chose (the decision, the      *)
(* propagated predicate, its reason, ...) as PARAMETERS: MC_Engine draws    *)
(* them nondeterministically, Trace.tla binds them to a recorded event.     *)
(* The semantic conditions on those values are stated as monitor operators  *)
(* (Mon...) next to the action; they are what the properties C01, C02,      *)
(* C03, C04, C05, C07, C10, C11, C12, C17, C18 say about one step.          *)
(***************************************************************************)
EXTENDS Constraints, TLC

VARIABLES
    vars,     \* Seq of sets: the declared (initial) domain of every variable; vars[1] = {1}
    lits,     \* the variables created as literals
    cons,     \* Seq of the user-level constraints posted so far (the model M)
    sol,      \* Sol(M): the set of total assignments satisfying M
    solx,     \* Sol(M /\ the clauses the library added on its own: blocking / strengthening)
    dom,      \* Seq of sets: the current domains
    trail,    \* Seq of [v, old, new, lvl, why, prop]: one per entry of Assignments.trail
    level,    \* decision level
    life,     \* CSPSolverState
    propc,    \* Seq: propc[id+1] = index in cons of the constraint propagator id belongs to (0: none)
    db,       \* Seq: db[id+1] = [preds, learned, live] the nogood database
    posting,  \* index in cons of the constraint being posted, 0 if none
    call,     \* the API call in progress, [api |-> "none"] if none
    yielded,  \* solutions yielded by the iteration in progress
    lastB,    \* view -> <<lb, ub>> last reported bound (monotonicity, C12)
    best,     \* optimisation in progress: <<>> or <<objective value of the incumbent>>
    hist      \* summary of the history of this solver object (for attribution of stale answers)

evars == <<vars, lits, cons, sol, solx, dom, trail, level, life, propc, db, posting, call,
           yielded, lastB, best, hist>>

NoCall == [api |-> "none"]
PlainView(v) == [v |-> v, s |-> 1, o |-> 0]
Fill == [v \in 1..Len(vars) |-> Min(vars[v])]

InitEntries(v, D) ==       \* Assignments::grow pushes two entries, create_..._sparse one per hole
    [i \in 1..(2 + (Max(D) - Min(D) + 1 - Cardinality(D))) |->
        [v |-> v, old |-> D, new |-> D, lvl |-> 0, why |-> "init", prop |-> -1]]

EInit ==
    /\ vars = <<{1}>> /\ lits = {} /\ cons = <<>>
    /\ sol = {<<1>>} /\ solx = {<<1>>}
    /\ dom = <<{1}>>
    /\ trail = InitEntries(1, {1})
    /\ level = 0 /\ life = "Ready"
    /\ propc = <<>> /\ db = <<>> /\ posting = 0 /\ call = NoCall
    /\ yielded = {} /\ lastB = <<>> /\ best = <<>>
    /\ hist = [lsu |-> FALSE, iter |-> FALSE]

\* ---------------------------------------------------------------- domains and trail
DomOf(p) == dom[p.x.v]
EvalNow(p) == IF DomOf(p) = {} THEN "F" ELSE Eval(p, DomOf(p))
AllTrueNow(P) == \A i \in DOMAIN P : EvalNow(P[i]) = "T"

\* the values of D that satisfy predicate p (over a plain variable or a view)
Restrict(p, D) == {xv \in D : TrueOnVal(p, xv)}

Entry(v, old, new, lvl, why, prop) ==
    [v |-> v, old |-> old, new |-> new, lvl |-> lvl, why |-> why, prop |-> prop]

\* Assignments::post_predicate (assignments.rs:574) for a predicate over a domain id, on a trail
\* tr and domains d: returns [tr, d, ok].  Entries are pushed only when they change the domain
\* (tighten_lower_bound:418, tighten_upper_bound:462, remove_value_from_domain:525); an equality
\* is a lower-bound push followed by an upper-bound push (make_assignment:499), the second one
\* skipped if the first emptied the domain.
PushOne(st, p, lvl, why, prop) ==
    LET v == p.x.v
        D == st.d[v]
        N == Restrict(p, D)
    IN  IF N = D THEN st
        ELSE [tr |-> Append(st.tr, Entry(v, D, N, lvl, why, prop)),
              d  |-> [st.d EXCEPT ![v] = N],
              ok |-> st.ok /\ N # {}]

PostPred(tr, d, p, lvl, why, prop) ==
    LET st0 == [tr |-> tr, d |-> d, ok |-> TRUE] IN
    IF p.op # "eq" THEN PushOne(st0, p, lvl, why, prop)
    ELSE LET st1 == PushOne(st0, [p EXCEPT !.op = "ge"], lvl, why, prop)
         IN  IF ~st1.ok THEN st1 ELSE PushOne(st1, [p EXCEPT !.op = "le"], lvl, why, prop)

\* Assignments::synchronise (assignments.rs:674): pop every entry above level l, newest first
RECURSIVE Undo(_, _, _)
Undo(tr, d, l) ==
    IF tr = <<>> \/ tr[Len(tr)].lvl <= l THEN [tr |-> tr, d |-> d]
    ELSE LET e == tr[Len(tr)]
         IN  Undo(SubSeq(tr, 1, Len(tr) - 1), [d EXCEPT ![e.v] = e.old], l)

\* the level at which predicate p became true (0 if it holds on the declared domain), or -1 if it
\* is not true now: Assignments::get_decision_level_for_predicate
LevelOf(p) ==
    IF EvalNow(p) # "T" THEN -1
    ELSE IF Eval(p, vars[p.x.v]) = "T" THEN 0
    ELSE LET idxs == {i \in DOMAIN trail : trail[i].v = p.x.v /\ trail[i].new # {}
                                          /\ Eval(p, trail[i].new) = "T"}
         IN  IF idxs = {} THEN 0 ELSE trail[Min(idxs)].lvl
PosOf(p) ==
    IF EvalNow(p) # "T" THEN -1
    ELSE IF Eval(p, vars[p.x.v]) = "T" THEN 0
    ELSE LET idxs == {i \in DOMAIN trail : trail[i].v = p.x.v /\ trail[i].new # {}
                                          /\ Eval(p, trail[i].new) = "T"}
         IN  IF idxs = {} THEN 0 ELSE Min(idxs)

ConsOfProp(id) ==     \* the user-level constraint propagator id belongs to, or <<>> if unknown
    IF id >= 0 /\ id < Len(propc) /\ propc[id + 1] > 0 THEN <<cons[propc[id + 1]]>> ELSE <<>>

\* ---------------------------------------------------------------- model construction (api/solver.rs)
\* Solver::new_bounded_integer / new_sparse_integer / new_literal
NewVar(v, D, isLit) ==
    /\ v = Len(vars) + 1 /\ D # {} /\ level = 0
    /\ vars' = Append(vars, D) /\ dom' = Append(dom, D)
    /\ lits' = IF isLit THEN lits \cup {v} ELSE lits
    /\ trail' = trail \o InitEntries(v, D)
    /\ sol'  = {Append(a, xv) : a \in sol,  xv \in D}
    /\ solx' = {Append(a, xv) : a \in solx, xv \in D}
    /\ UNCHANGED <<cons, level, life, propc, db, posting, call, yielded, lastB, best, hist>>

\* Solver::add_constraint(..).post() / implied_by / reify, Solver::add_clause: the call starts
PostBegin(c) ==
    /\ posting = 0
    /\ cons' = Append(cons, c) /\ posting' = Len(cons) + 1
    /\ sol'  = {a \in sol  : Holds(c, a)}
    /\ solx' = {a \in solx : Holds(c, a)}
    /\ UNCHANGED <<vars, lits, dom, trail, level, life, propc, db, call, yielded, lastB, best, hist>>

\* C02: an infeasibility error is only reported if the model has no solution
MonPostErrRight(ok) == ok \/ sol = {}

PostEnd ==
    /\ posting # 0 /\ posting' = 0
    /\ UNCHANGED <<vars, lits, cons, sol, solx, dom, trail, level, life, propc, db, call, yielded,
                   lastB, best, hist>>

\* ConstraintSatisfactionSolver::add_propagator (1358): the store hands out consecutive ids
PropagatorAdded(id) ==
    /\ id = Len(propc)
    /\ propc' = Append(propc, posting)
    /\ UNCHANGED <<vars, lits, cons, sol, solx, dom, trail, level, life, db, posting, call, yielded,
                   lastB, best, hist>>

\* ---------------------------------------------------------------- propagation (propagate(), 1158-1241)
\* one new trail entry made by propagator prop with the given reason
Propagate(prop, p) ==
    LET st == PushOne([tr |-> trail, d |-> dom, ok |-> TRUE], p, level, "prop", prop)
    IN  /\ p.op # "eq"                   \* trail entries are never equalities (assignments.rs:691)
        /\ Len(st.tr) = Len(trail) + 1   \* an entry is only pushed if it changes the domain
        /\ trail' = st.tr /\ dom' = st.d
        /\ UNCHANGED <<vars, lits, cons, sol, solx, level, life, propc, db, posting, call, yielded,
                       lastB, best, hist>>

\* C17 "the stated facts all hold in the solver state in which the reason is given"
MonReasonTrue(R) == AllTrueNow(R)
\* C17 "every assignment that satisfies the constraint and the stated facts satisfies the fact"
\* (over the DECLARED domains of the variables involved); for the nogood propagator (id 0) the
\* constraint is the nogood R /\ ~p, which C02 requires to be implied by the model
MonReasonEntails(prop, p, R) ==
    IF prop = 0 THEN NogoodImplied(solx, Append(R, Neg(p)))
    ELSE IF ConsOfProp(prop) = <<>> THEN TRUE
    ELSE Entails(vars, Fill, ConsOfProp(prop)[1], R, p)
\* C17 "never removes a value used by some solution of the constraint within the current domains"
MonNoSupportRemoved(prop, p) ==
    IF prop = 0 \/ ConsOfProp(prop) = <<>> \/ \E v \in DOMAIN dom : dom[v] = {} THEN TRUE
    ELSE Entails(dom, [v \in DOMAIN dom |-> Min(dom[v])], ConsOfProp(prop)[1], <<>>, p)

\* a propagator reports an explicit conflict (1196), also from initialise_at_root (1371)
MonConflictTrue(N) == AllTrueNow(N)
MonConflictEntails(prop, N) ==
    IF prop = 0 THEN NogoodImplied(solx, N)
    ELSE IF ConsOfProp(prop) = <<>> THEN TRUE
    ELSE Refutes(vars, Fill, ConsOfProp(prop)[1], N)

\* prepare_for_conflict_resolution (1455): the entry that emptied a domain is popped again
EmptyDomain ==
    /\ trail # <<>>
    /\ LET e == trail[Len(trail)] IN
        /\ e.new = {}
        /\ trail' = SubSeq(trail, 1, Len(trail) - 1)
        /\ dom' = [dom EXCEPT ![e.v] = e.old]
    /\ UNCHANGED <<vars, lits, cons, sol, solx, level, life, propc, db, posting, call, yielded,
                   lastB, best, hist>>

\* ---------------------------------------------------------------- decisions (make_next_decision, 819-870)
Assume(p, ok) ==
    LET st == PostPred(trail, dom, p, level + 1, "assume", -1)
    IN  /\ level' = level + 1
        /\ trail' = st.tr /\ dom' = st.d
        /\ ok = st.ok
        /\ UNCHANGED <<vars, lits, cons, sol, solx, life, propc, db, posting, call, yielded, lastB,
                       best, hist>>

Decide(p) ==
    LET st == PostPred(trail, dom, p, level + 1, "dec", -1)
    IN  /\ level' = level + 1
        /\ trail' = st.tr /\ dom' = st.d
        /\ UNCHANGED <<vars, lits, cons, sol, solx, life, propc, db, posting, call, yielded, lastB,
                       best, hist>>
\* C18: a proposed decision is currently neither true nor false
MonUndecided(p) == EvalNow(p) = "U"

\* C18 / C01: when the brancher has nothing left every variable is fixed ...
MonAllFixed == \A v \in DOMAIN dom : Cardinality(dom[v]) = 1
CurrentAssignment == [v \in DOMAIN dom |-> IF dom[v] = {} THEN 0 ELSE Min(dom[v])]
\* ... and the assignment satisfies the model
MonSolutionHolds(a) == a \in sol
\* which constraints of the model an assignment violates (for the replay file)
Violated(a) == {i \in DOMAIN cons : Len(a) = Len(vars) /\ ~Holds(cons[i], a)}

\* ---------------------------------------------------------------- conflict analysis
\* get_propagation_reason (conflict_analysis_context.rs:140): implicit reasons are pure domain
\* reasoning; explicit ones are re-computed reasons of propagators
MonExplainTrue(R) == AllTrueNow(R)
MonImplicitSound(p, R) == DomainEntails(vars, Fill, R, p)
MonReasonPrecedes(p, R) == \A i \in DOMAIN R : PosOf(R[i]) <= PosOf(p)

\* the learned nogood (resolution_resolver.rs:439-523)
MonNogoodImplied(N) == NogoodImplied(solx, N)
MonNogoodTrue(N) == AllTrueNow(N)
\* asserting: exactly the first predicate is from the current level, the backjump level is the
\* highest level among the others
MonAsserting(N, bj) ==
    /\ N # <<>>
    /\ LevelOf(N[1]) = level
    /\ \A i \in 2..Len(N) : LevelOf(N[i]) < level /\ LevelOf(N[i]) <= bj
    /\ (Len(N) > 1 => \E i \in 2..Len(N) : LevelOf(N[i]) = bj)
    /\ (Len(N) = 1 => bj = 0)

\* backtrack (1056)
Backtrack(l) ==
    LET u == Undo(trail, dom, l)
    IN  /\ l < level
        /\ trail' = u.tr /\ dom' = u.d /\ level' = l
        /\ UNCHANGED <<vars, lits, cons, sol, solx, life, propc, db, posting, call, yielded, lastB,
                       best, hist>>

\* NoLearningResolver::process (no_learning_resolver.rs:24): the negated decision is posted
Flip(p) ==
    LET st == PostPred(trail, dom, p, level, "flip", -1)
    IN  /\ trail' = st.tr /\ dom' = st.d
        /\ UNCHANGED <<vars, lits, cons, sol, solx, level, life, propc, db, posting, call, yielded,
                       lastB, best, hist>>

\* restarts never cut below the assumptions (775, 1017)
MonRestartAboveAssumptions(levelBefore) ==
    call.api = "none" \/ levelBefore > Len(call.assum)

\* ---------------------------------------------------------------- nogood database (nogood_propagator.rs)
NogoodAdded(id, preds, learned) ==
    /\ \/ id = Len(db) /\ db' = Append(db, [preds |-> preds, learned |-> learned, live |-> TRUE])
       \/ id < Len(db) /\ ~db[id + 1].live       \* a deleted id is reused (923, 1014)
          /\ db' = [db EXCEPT ![id + 1] = [preds |-> preds, learned |-> learned, live |-> TRUE]]
    /\ UNCHANGED <<vars, lits, cons, sol, solx, dom, trail, level, life, propc, posting, call,
                   yielded, lastB, best, hist>>

NogoodDeleted(id) ==
    /\ id < Len(db) /\ db[id + 1].live
    /\ db' = [db EXCEPT ![id + 1].live = FALSE]
    /\ UNCHANGED <<vars, lits, cons, sol, solx, dom, trail, level, life, propc, posting, call,
                   yielded, lastB, best, hist>>
\* permanent nogoods are never deleted
MonOnlyLearnedDeleted(id) == id < Len(db) /\ db[id + 1].learned

\* ---------------------------------------------------------------- queries (api/solver.rs:141-153)
ImageOf(x, D) == {x.s * xv + x.o : xv \in D}
\* C12: reported bounds enclose the value in every solution, lie within the declared domain and
\* only tighten
MonEncloses(x, lb, ub) == \A a \in sol : lb <= Val(x, a) /\ Val(x, a) <= ub
MonWithinDeclared(x, lb, ub) ==
    LET I == ImageOf(x, vars[x.v]) IN lb >= Min(I) /\ ub <= Max(I)
MonMonotone(x, lb, ub) ==
    x \notin DOMAIN lastB \/ (lb >= lastB[x][1] /\ ub <= lastB[x][2])
\* binding: the reported bounds are the bounds of the current domain
MonMatchesDom(x, lb, ub) ==
    dom[x.v] = {} \/ (LET I == ImageOf(x, dom[x.v]) IN lb = Min(I) /\ ub = Max(I))

QueryBounds(x, lb, ub) ==
    /\ lastB' = [y \in (DOMAIN lastB) \cup {x} |-> IF y = x THEN <<lb, ub>> ELSE lastB[y]]
    /\ UNCHANGED <<vars, lits, cons, sol, solx, dom, trail, level, life, propc, db, posting, call,
                   yielded, best, hist>>

\* ---------------------------------------------------------------- API calls
Skip == UNCHANGED evars
SetLife(s) ==
    /\ life' = s
    /\ UNCHANGED <<vars, lits, cons, sol, solx, dom, trail, level, propc, db, posting, call, yielded,
                   lastB, best, hist>>

CallBegin(c) ==
    /\ call.api = "none"
    /\ call' = c
    /\ yielded' = {}
    /\ best' = <<>>
    /\ UNCHANGED <<vars, lits, cons, sol, solx, dom, trail, level, life, propc, db, posting, lastB,
                   hist>>

CallEnd ==
    /\ call' = NoCall
    /\ UNCHANGED <<vars, lits, cons, sol, solx, dom, trail, level, life, propc, db, posting,
                   yielded, lastB, best, hist>>

\* SolutionIterator::next_solution yields a solution: the blocking clause over all variables is
\* added by the library before the next solve (solution_iterator.rs:46, 75)
IterYield(a) ==
    /\ yielded' = yielded \cup {a}
    /\ solx' = solx \ {a}
    /\ hist' = [hist EXCEPT !.iter = TRUE]
    /\ UNCHANGED <<vars, lits, cons, sol, dom, trail, level, life, propc, db, posting, call, lastB,
                   best>>

\* objective value of an assignment as the optimisation procedures see it (always minimising)
ObjVal(a) == IF call.maximise THEN -Val(call.obj, a) ELSE Val(call.obj, a)
OptValue == Min({ObjVal(a) : a \in sol})

\* a solution callback: LinearSatUnsat then permanently adds objective <= best - 1
\* (linear_sat_unsat.rs:45-53, 130-150); LinearUnsatSat only adds clauses implied by the model
Callback(a) ==
    /\ best' = <<ObjVal(a)>>
    /\ solx' = IF call.lus THEN solx ELSE {b \in solx : ObjVal(b) < ObjVal(a)}
    /\ hist' = IF call.lus THEN hist ELSE [hist EXCEPT !.lsu = TRUE]
    /\ UNCHANGED <<vars, lits, cons, sol, dom, trail, level, life, propc, db, posting, call, yielded,
                   lastB>>
=============================================================================
