CONSTANTS
  Lits <- MCLits
  Ids <- MCIds
  Tags <- MCTags
  Labels <- MCLabels
  FIXED = TRUE
  Depth = 1
  Reduced = FALSE
INIT Init
NEXT Next
INVARIANT Emit
CHECK_DEADLOCK FALSE
