SPECIFICATION MCSpec
CONSTANTS
  MVars <- ModelVars
  MCons <- ModelCons
  MaxRestarts = 0
  SOUND = FALSE
INVARIANT LearnedImplied
INVARIANT AnswerRight
INVARIANT TrailSound
INVARIANT ConflictIsTrue
INVARIANT ReasonsAligned
CHECK_DEADLOCK FALSE
