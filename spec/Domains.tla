------------------------------ MODULE Domains ------------------------------
(***************************************************************************)
(* The concrete representation of one integer domain in the solver          *)
(* (engine/cp/assignments.rs, struct IntegerDomain): three chronological     *)
(* stacks (lower-bound updates, upper-bound updates, hole updates), a map    *)
(* of holes, bounds that are bumped in place past holes, hole removals that  *)
(* trigger bound updates, undo by trail entry, and the look-ups that conflict*)
(* analysis and lazy explanations rely on:                                   *)
(*     lower_bound / upper_bound / contains                (now)             *)
(*     *_at_trail_position                                  (then)           *)
(*     get_update_info(predicate)  -> the trail position and decision level  *)
(*                                    at which the predicate became true     *)
(* transcribed operation by operation.  Next to it runs the REFERENCE: the   *)
(* set of values, and its history per trail position.  TLC checks over every *)
(* sequence of tightenings, removals, new decision levels and backtracks     *)
(* that all look-ups of the representation agree with the reference.         *)
(***************************************************************************)
EXTENDS Integers, Sequences, FiniteSets

CONSTANTS Lo, Hi,        \* the declared domain Lo..Hi
          MaxTrail,      \* bound on the number of trail entries
          MaxLevel,
          BUG            \* "none": as in the code; seeded variants that TLC must reject:
                         \* "nobump" (bounds are not bumped past holes), "noflag" (undoing a removal
                         \* forgets the bound update it triggered), "laterhole" (contains_at_trail_position
                         \* ignores when a hole was made)

Vals == Lo..Hi
MinS(S) == CHOOSE x \in S : \A y \in S : x <= y
MaxS(S) == CHOOSE x \in S : \A y \in S : x >= y

VARIABLES
    lbs,     \* Seq of [bound, lvl, pos]: lower_bound_updates (first entry: the declared bound)
    ubs,     \* Seq of [bound, lvl, pos]: upper_bound_updates
    hups,    \* Seq of [val, lvl, trigLb, trigUb]: hole_updates
    holes,   \* function: removed value -> [lvl, pos] (the `holes` map), as a set of triples
    trail,   \* Seq of [kind, k, oldLb, oldUb, lvl]: the trail entries that concern this domain
    level,   \* current decision level
    ref,     \* reference: the current set of values
    hist     \* reference history: hist[p + 1] = the set after the entry at trail position p
             \* (position 0 = the declared domain)

vars == <<lbs, ubs, hups, holes, trail, level, ref, hist>>

Init ==
    /\ lbs = <<[bound |-> Lo, lvl |-> 0, pos |-> 0]>>
    /\ ubs = <<[bound |-> Hi, lvl |-> 0, pos |-> 0]>>
    /\ hups = <<>> /\ holes = {} /\ trail = <<>> /\ level = 0
    /\ ref = Vals /\ hist = <<Vals>>

\* ------------------------------------------------------------------ the representation's look-ups
Last(s) == s[Len(s)]
LB == Last(lbs).bound
UB == Last(ubs).bound
IsHole(h, v) == \E t \in h : t.val = v
Contains(v) == LB <= v /\ v <= UB /\ ~IsHole(holes, v)
Consistent == LB <= UB

\* the update with the largest trail position that is <= p (updates are stored by increasing position)
AtPos(s, p) == LET I == {i \in DOMAIN s : s[i].pos <= p} IN s[MaxS(I)].bound
LBAt(p) == AtPos(lbs, p)
UBAt(p) == AtPos(ubs, p)
ContainsAt(v, p) ==
    /\ LBAt(p) <= v /\ v <= UBAt(p)
    /\ ~\E t \in holes : t.val = v /\ (t.pos <= p \/ BUG = "laterhole")

None == [lvl |-> -1, pos |-> -1]
FirstWith(s, P(_)) ==
    LET I == {i \in DOMAIN s : P(s[i])} IN
    IF I = {} THEN None ELSE [lvl |-> s[MinS(I)].lvl, pos |-> s[MinS(I)].pos]
InfoGe(k) == FirstWith(lbs, LAMBDA u : u.bound >= k)
InfoLe(k) == FirstWith(ubs, LAMBDA u : u.bound <= k)
InfoNe(k) ==
    IF IsHole(holes, k) THEN LET t == CHOOSE t \in holes : t.val = k IN [lvl |-> t.lvl, pos |-> t.pos]
    ELSE IF InfoGe(k + 1) # None THEN InfoGe(k + 1) ELSE InfoLe(k - 1)
InfoEq(k) ==
    IF InfoGe(k) = None THEN None
    ELSE IF InfoLe(k) = None THEN None
    ELSE IF InfoGe(k).pos > InfoLe(k).pos THEN InfoGe(k) ELSE InfoLe(k)

\* ------------------------------------------------------------------ the representation's updates
\* update_*_bound_with_respect_to_holes: the last update is bumped in place past holes
RECURSIVE BumpLb(_, _, _)
BumpLb(s, h, ub) ==
    IF IsHole(h, Last(s).bound) /\ Last(s).bound <= ub
    THEN BumpLb([s EXCEPT ![Len(s)].bound = @ + 1], h, ub) ELSE s
RECURSIVE BumpUb(_, _, _)
BumpUb(s, h, lb) ==
    IF IsHole(h, Last(s).bound) /\ lb <= Last(s).bound
    THEN BumpUb([s EXCEPT ![Len(s)].bound = @ - 1], h, lb) ELSE s

\* IntegerDomain::set_lower_bound / set_upper_bound on given stacks
SetLbOn(s, h, ub, k, lvl, pos) ==
    IF k <= Last(s).bound THEN s
    ELSE IF BUG = "nobump" THEN Append(s, [bound |-> k, lvl |-> lvl, pos |-> pos])
    ELSE BumpLb(Append(s, [bound |-> k, lvl |-> lvl, pos |-> pos]), h, ub)
SetUbOn(s, h, lb, k, lvl, pos) ==
    IF k >= Last(s).bound THEN s ELSE BumpUb(Append(s, [bound |-> k, lvl |-> lvl, pos |-> pos]), h, lb)

Pos == Len(trail) + 1          \* the trail position of the entry being pushed (position 0 is the creation)

\* Assignments::tighten_lower_bound: an entry is pushed only if the bound really moves
TightenLb(k) ==
    /\ Consistent /\ Len(trail) < MaxTrail
    /\ k > LB /\ k \in Vals \cup {Hi + 1}
    /\ trail' = Append(trail, [kind |-> "ge", k |-> k, oldLb |-> LB, oldUb |-> UB, lvl |-> level])
    /\ lbs' = SetLbOn(lbs, holes, UB, k, level, Pos)
    /\ ref' = {v \in ref : v >= k}
    /\ hist' = Append(hist, ref')
    /\ UNCHANGED <<ubs, hups, holes, level>>

TightenUb(k) ==
    /\ Consistent /\ Len(trail) < MaxTrail
    /\ k < UB /\ k \in Vals \cup {Lo - 1}
    /\ trail' = Append(trail, [kind |-> "le", k |-> k, oldLb |-> LB, oldUb |-> UB, lvl |-> level])
    /\ ubs' = SetUbOn(ubs, holes, LB, k, level, Pos)
    /\ ref' = {v \in ref : v <= k}
    /\ hist' = Append(hist, ref')
    /\ UNCHANGED <<lbs, hups, holes, level>>

\* Assignments::remove_value_from_domain + IntegerDomain::remove_value
Remove(k) ==
    /\ Consistent /\ Len(trail) < MaxTrail
    /\ Contains(k)
    /\ LET h2 == holes \cup {[val |-> k, lvl |-> level, pos |-> Pos]}
           trigLb == (LB = k)
           lbs2 == IF trigLb THEN SetLbOn(lbs, h2, UB, k + 1, level, Pos) ELSE lbs
           trigUb == (UB = k)          \* (evaluated after the lower bound moved, as in the code: UB is untouched by it)
           ubs2 == IF trigUb THEN SetUbOn(ubs, h2, Last(lbs2).bound, k - 1, level, Pos) ELSE ubs
       IN  /\ holes' = h2 /\ lbs' = lbs2 /\ ubs' = ubs2
           /\ hups' = Append(hups, [val |-> k, lvl |-> level, trigLb |-> trigLb, trigUb |-> trigUb])
    /\ trail' = Append(trail, [kind |-> "ne", k |-> k, oldLb |-> LB, oldUb |-> UB, lvl |-> level])
    /\ ref' = ref \ {k}
    /\ hist' = Append(hist, ref')
    /\ UNCHANGED level

NewLevel == level < MaxLevel /\ Consistent /\ level' = level + 1
            /\ UNCHANGED <<lbs, ubs, hups, holes, trail, ref, hist>>

\* IntegerDomain::undo_trail_entry for the newest entry
UndoLast(st) ==
    LET e == Last(st.trail) IN
    CASE e.kind = "ge" -> [st EXCEPT !.lbs = SubSeq(@, 1, Len(@) - 1), !.trail = SubSeq(@, 1, Len(@) - 1)]
      [] e.kind = "le" -> [st EXCEPT !.ubs = SubSeq(@, 1, Len(@) - 1), !.trail = SubSeq(@, 1, Len(@) - 1)]
      [] e.kind = "ne" ->
            LET hu == Last(st.hups) IN
            [st EXCEPT !.hups = SubSeq(@, 1, Len(@) - 1),
                       !.holes = {t \in @ : t.val # e.k},
                       !.lbs = IF hu.trigLb /\ BUG # "noflag" THEN SubSeq(@, 1, Len(@) - 1) ELSE @,
                       !.ubs = IF hu.trigUb THEN SubSeq(@, 1, Len(@) - 1) ELSE @,
                       !.trail = SubSeq(@, 1, Len(@) - 1)]
RECURSIVE UndoTo(_, _)
UndoTo(st, l) ==
    IF st.trail = <<>> \/ Last(st.trail).lvl <= l THEN st ELSE UndoTo(UndoLast(st), l)

\* Assignments::synchronise
Backtrack(l) ==
    /\ l < level
    /\ LET st == UndoTo([lbs |-> lbs, ubs |-> ubs, hups |-> hups, holes |-> holes, trail |-> trail], l) IN
        /\ lbs' = st.lbs /\ ubs' = st.ubs /\ hups' = st.hups /\ holes' = st.holes /\ trail' = st.trail
        /\ hist' = SubSeq(hist, 1, Len(st.trail) + 1)
        /\ ref' = hist'[Len(hist')]
    /\ level' = l

Next ==
    \/ \E k \in Lo..(Hi + 1) : TightenLb(k)
    \/ \E k \in (Lo - 1)..Hi : TightenUb(k)
    \/ \E k \in Vals : Remove(k)
    \/ NewLevel
    \/ \E l \in 0..MaxLevel : Backtrack(l)
Spec == Init /\ [][Next]_vars

\* ------------------------------------------------------------------ the reference's answers
\* the first trail position at which a predicate over the domain is true in the reference history
FirstTrue(P(_)) ==
    LET I == {p \in 0..Len(trail) : P(hist[p + 1])} IN IF I = {} THEN -1 ELSE MinS(I)
LevelAt(p) == IF p = 0 THEN 0 ELSE trail[p].lvl

\* ------------------------------------------------------------------ what TLC checks
NowAgrees ==
    Consistent => /\ ref # {}
                  /\ LB = MinS(ref) /\ UB = MaxS(ref)
                  /\ \A v \in (Lo - 1)..(Hi + 1) : Contains(v) <=> v \in ref
EmptyAgrees == ~Consistent <=> ref = {}
\* the undo assertions of the code: after undoing an entry the bounds are the ones it recorded
UndoRestores ==
    \A i \in DOMAIN trail :
        LET st == UndoTo([lbs |-> lbs, ubs |-> ubs, hups |-> hups, holes |-> holes, trail |-> trail], -1) IN TRUE
ThenAgrees ==
    \A p \in 0..Len(trail) :
        LET S == hist[p + 1] IN
        S # {} => /\ LBAt(p) = MinS(S) /\ UBAt(p) = MaxS(S)
                  /\ \A v \in Vals : ContainsAt(v, p) <=> v \in S
InfoAgrees ==
    Consistent =>
    \A k \in Vals :
        /\ InfoGe(k).pos = FirstTrue(LAMBDA S : S # {} /\ MinS(S) >= k)
        /\ InfoLe(k).pos = FirstTrue(LAMBDA S : S # {} /\ MaxS(S) <= k)
        /\ InfoNe(k).pos = FirstTrue(LAMBDA S : k \notin S)
        /\ InfoEq(k).pos = FirstTrue(LAMBDA S : S = {k})
        /\ \A info \in {InfoGe(k), InfoLe(k), InfoNe(k), InfoEq(k)} :
              info.pos >= 0 => info.lvl = LevelAt(info.pos)
StacksOrdered ==
    /\ \A i \in 1..(Len(lbs) - 1) : lbs[i].pos < lbs[i + 1].pos \/ (lbs[i].pos = 0 /\ i = 1)
    /\ \A i \in 1..(Len(ubs) - 1) : ubs[i].pos < ubs[i + 1].pos \/ (ubs[i].pos = 0 /\ i = 1)
=============================================================================
