----------------------------- MODULE Determinism -----------------------------
(***************************************************************************)
(* Property C20 as a lock-step product of two recorded executions of the    *)
(* same input with the same options and seed: the two event streams (every  *)
(* hook event of the engine: decisions, propagations with their reasons,    *)
(* learned nogoods, deletions, restarts, results; or the normalised output  *)
(* and proof bytes of a command-line run) are consumed together and must be *)
(* equal event by event.  Comparing whole event streams is far more         *)
(* sensitive than comparing verdicts: iteration over an unordered container *)
(* shows up as the first differing propagation even when the answer agrees. *)
(***************************************************************************)
EXTENDS Integers, Sequences, Json, IOUtils, TLC, TLCExt

VARIABLES l, scn

A == TLCEval(ndJsonDeserialize(IOEnv.TRACE))
B == TLCEval(ndJsonDeserialize(IOEnv.TRACE2))

Mon(label, ok, witness) ==
    IF ok THEN TRUE
    ELSE PrintT("MONJ " \o ToJson([mon |-> label, fam |-> scn[1], id |-> scn[2], i |-> l,
                                   w |-> ToString(witness)]))

Init == l = 1 /\ scn = <<"none", 0>>
Next ==
    /\ l <= Len(A) /\ l' = l + 1
    /\ scn' = IF A[l].e = "Reset" THEN <<A[l].fam, A[l].id>> ELSE scn
    /\ Mon("C20.SameEvent", l <= Len(B) /\ A[l] = B[l],
           <<"run 1", A[l], "run 2", IF l <= Len(B) THEN B[l] ELSE "missing">>)
Spec == Init /\ [][Next]_<<l, scn>>

Accepted ==
    LET d == TLCGet("stats").diameter IN
    /\ Mon("C20.SameLength", Len(A) = Len(B), <<Len(A), Len(B)>>)
    /\ IF d - 1 = Len(A) THEN PrintT("ENDJ " \o ToJson([accepted |-> TRUE, events |-> Len(A), matched |-> d - 1]))
       ELSE Print("ENDJ " \o ToJson([accepted |-> FALSE, events |-> Len(A), matched |-> d - 1, unmatched |-> "?"]), FALSE)
=============================================================================
