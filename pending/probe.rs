
/// Everything a domain look-up can be asked, for one integer domain (hook of the `Domains.tla`
/// behaviour replay): see [`domain_probe`].
#[derive(Debug, Default, Clone)]
pub struct DomainProbe {
    pub consistent: bool,
    pub lb: i32,
    pub ub: i32,
    /// `contains(v)` for `v` in `lo..=hi`
    pub contains: Vec<bool>,
    /// for every trail position of the domain (0 = when it was created): lower bound, upper bound
    /// and `contains(v)` for `v` in `lo..=hi` at that position
    pub at: Vec<(i32, i32, Vec<bool>)>,
    /// for every `v` in `lo..=hi`, for `[x >= v]`, `[x <= v]`, `[x != v]`, `[x == v]`: the decision
    /// level and trail position (relative to the creation of the domain) at which it became true,
    /// `(-1, -1)` if it is not true
    pub info: Vec<[(i64, i64); 4]>,
}

/// Verification hook: creates a fresh [`crate::engine::Assignments`] with one domain `lo..=hi`,
/// applies `ops` ("ge" / "le" / "ne" with a value, "level", "backtrack" with a level) and reports
/// all look-ups of the final state.
pub fn domain_probe(lo: i32, hi: i32, ops: &[(String, i32)]) -> DomainProbe {
    use crate::engine::Assignments;
    use crate::predicate;
    let mut assignments = Assignments::default();
    let x = assignments.grow(lo, hi);
    // the position right after the creation of the domain
    let base = assignments.num_trail_entries();
    let mut entries = 0usize;
    for (op, k) in ops {
        let before = assignments.num_trail_entries();
        match op.as_str() {
            "ge" => {
                let _ = assignments.tighten_lower_bound(x, *k, None);
            }
            "le" => {
                let _ = assignments.tighten_upper_bound(x, *k, None);
            }
            "ne" => {
                let _ = assignments.remove_value_from_domain(x, *k, None);
            }
            "level" => assignments.increase_decision_level(),
            "backtrack" => {
                let _ = assignments.synchronise(*k as usize, usize::MAX, false);
                let _ = assignments.drain_domain_events();
            }
            other => panic!("domain_probe: unknown operation {other}"),
        }
        let after = assignments.num_trail_entries();
        if after >= before {
            entries += after - before;
        } else {
            entries -= before - after;
        }
    }
    assert_eq!(assignments.num_trail_entries(), base + entries);
    let lb = assignments.get_lower_bound(x);
    let ub = assignments.get_upper_bound(x);
    // spec position 0 is "before the first entry", spec position p >= 1 is the p-th entry
    let real = |p: usize| if p == 0 { base - 1 } else { base + p - 1 };
    let rel = |info: Option<(usize, usize)>| match info {
        None => (-1i64, -1i64),
        Some((lvl, pos)) => (lvl as i64, if pos < base { 0 } else { (pos - base + 1) as i64 }),
    };
    let look = |p: crate::predicates::Predicate| {
        rel(assignments
            .get_trail_position(&p)
            .map(|pos| (assignments.get_decision_level_for_predicate(&p).unwrap(), pos)))
    };
    DomainProbe {
        consistent: lb <= ub,
        lb,
        ub,
        contains: (lo..=hi).map(|v| assignments.is_value_in_domain(x, v)).collect(),
        at: (0..=entries)
            .map(|p| {
                (
                    assignments.get_lower_bound_at_trail_position(x, real(p)),
                    assignments.get_upper_bound_at_trail_position(x, real(p)),
                    (lo..=hi)
                        .map(|v| assignments.is_value_in_domain_at_trail_position(x, v, real(p)))
                        .collect(),
                )
            })
            .collect(),
        info: (lo..=hi)
            .map(|v| {
                [
                    look(predicate![x >= v]),
                    look(predicate![x <= v]),
                    look(predicate![x != v]),
                    look(predicate![x == v]),
                ]
            })
            .collect(),
    }
}
