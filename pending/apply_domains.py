# applies the pending Domains-probe work: hook in /repo (separate commit), harness subcommand, check part
import ast, os
# 1. hook
p = '/repo/pumpkin-solver/src/verif.rs'
s = open(p).read()
if 'pub fn domain_probe' not in s:
    s = s.rstrip('\n') + '\n' + open('/verif/work/pending/probe.rs').read()
    open(p, 'w').write(s)
# 2. harness
import shutil
shutil.copy('/verif/work/pending/domprobe_harness.rs', '/verif/harness/src/domprobe.rs')
p = '/verif/harness/src/main.rs'
s = open(p).read()
if 'mod domprobe;' not in s:
    s = s.replace('mod drcp;', 'mod domprobe;\nmod drcp;', 1)
    s = s.replace('''        "drcp" => {''', '''        // pvh domains --in behaviours.ndjson --out results.ndjson: Domains.tla behaviours on the real Assignments
        "domains" => {
            let inp = arg(&args, "--in").expect("--in");
            let out = arg(&args, "--out").expect("--out");
            let mut w = std::io::BufWriter::new(std::fs::File::create(out).unwrap());
            let mut n = 0u64;
            for l in std::fs::read_to_string(inp).unwrap().lines() {
                if l.trim().is_empty() {
                    continue;
                }
                let b: serde_json::Value = serde_json::from_str(l).expect("behaviour");
                n += 1;
                writeln!(w, "{}", domprobe::replay(&b, n)).unwrap();
            }
            eprintln!("pvh: replayed {n} domain behaviours");
        }
        "drcp" => {''', 1)
    open(p, 'w').write(s)
# 3. check part (C02)
p = '/verif/bin/lib/pv.py'
s = open(p).read()
if 'def domains_part' not in s:
    old = '''def check_C02(res, tier, seed):
'''
    new = '''def domains_part(res):
    """Domains.tla: the concrete domain representation (update stacks, holes, bumping, undo,
    *_at_trail_position, get_update_info) against the reference set semantics: model checked, the
    seeded variants must be rejected, and every reachable state's look-ups are replayed on the
    real Assignments through the hook verif::domain_probe."""
    mc_part(res, "Domains", "Domains", label=res.prop + ".MC.Domains")
    for bug in ("nobump", "noflag", "laterhole"):
        mc_part(res, "Domains", "Domains_" + bug, expect_ok=False)
    d = workdir(res.prop + "_domains")
    beh = os.path.join(d, "behaviours.ndjson")
    if os.path.exists(beh):
        os.remove(beh)
    k, states, dt = tlc_generate("Gen_Domains", "Gen_Domains", beh)
    res.cov["parts"].append({"part": "Gen_Domains", "kind": "behaviour-generation", "behaviours": k,
                             "states": states, "tlc_wall_s": round(dt, 1)})
    build_harness()
    results = os.path.join(d, "results.ndjson")
    sh([PVH, "domains", "--in", beh, "--out", results], timeout=1800)
    findings = load_findings()
    bad = 0
    n_ = 0
    with open(results) as f:
        for line in f:
            r = json.loads(line)
            n_ += 1
            if r.get("ok") is True:
                continue
            bad += 1
            if bad > 20:
                continue
            hit = {"mon": res.prop + ".DomainLookup", "fam": "domains", "id": r["n"], "i": r["n"],
                   "w": json.dumps({k_: v for k_, v in r.items() if k_ != "n"})[:700]}
            res.add_hit(hit, None, findings, extra={"behaviour": r})
    if n_ != k:
        raise ToolError("domain replay: %d results for %d behaviours" % (n_, k))
    res.cov["traces_validated_against_impl"] += n_
    res.cov["evaluations"] += n_
    res.cov["parts"].append({"part": "domains-replay", "kind": "spec-to-implementation replay", "behaviours": n_,
                             "mismatches": bad})


def check_C02(res, tier, seed):
    domains_part(res)
'''
    assert s.count(old) == 1
    s2 = s.replace(old, new)
    ast.parse(s2)
    open(p + '.new', 'w').write(s2)
    os.replace(p + '.new', p)
print("applied")
