#!/usr/bin/env python3
"""debug helper: validate a recorded trace dir and print monitor hits with context
usage: hits.py <workdir> [label-substring]"""
import sys, json, os
sys.path.insert(0, os.path.join(os.path.dirname(os.path.abspath(__file__)), "lib"))
import pv
d = os.path.abspath(sys.argv[1])
flt = sys.argv[2] if len(sys.argv) > 2 else ""
trace = os.path.join(d, "t.ndjson")
out = pv.tlc_trace(trace, os.path.join(d, "meta_dbg"))
lines = [json.loads(l) for l in open(trace)]
print("accepted", out["accepted"], "matched", out.get("matched"), "unmatched", str(out.get("unmatched"))[:600])
ctx = int(os.environ.get("CTX", "6"))
for h in out["mons"]:
    if flt not in h["mon"] or (os.environ.get("EXCL") and os.environ["EXCL"] in h["mon"]):
        continue
    print("==", h["mon"], h["fam"], h["id"], "i=", h["i"], h["w"][:500])
    i = h["i"] - 1
    for e in lines[max(0, i - ctx): i + 2]:
        print("     ", json.dumps(e)[:400])
