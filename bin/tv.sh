#!/bin/bash
# usage: tv.sh trace.ndjson [metadir]  -- validate one trace with TLC against spec/Trace.tla
T=$(readlink -f "$1"); M=${2:-/verif/work/tv}
cd /verif/spec && TRACE=$T JAVA_TOOL_OPTIONS="-Xss1g" timeout ${TLC_TIMEOUT:-1200} tlc -workers 1 -metadir $M -cleanup -noGenerateSpecTE -config Trace.cfg Trace.tla 2>&1 | grep -v "^Linting\|^Parsing\|^Semantic\|^Picked up"
