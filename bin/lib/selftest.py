"""bin/check selftest: demonstrates that the specifications are BOUND to the code.

A freshly recorded execution of the real library is accepted; then one recorded field is corrupted,
or the events of one hook are removed, and the same specification must reject the trace or fire the
monitor that guards the corrupted fact. A corruption that goes unnoticed means the specification
does not constrain that part of the trace (exit 2: the machinery is broken, not the solver)."""
import json
import os
import random

import pv


def _load(path):
    with open(path) as f:
        return [json.loads(line) for line in f]


def _dump(events, path):
    with open(path, "w") as f:
        for e in events:
            f.write(json.dumps(e) + "\n")


def _labels(out):
    ls = {h["mon"] for h in out["mons"]}
    if not out["accepted"]:
        ls.add("BIND.Rejected")
    return ls


def run():
    pv.build_harness()
    d = pv.workdir("selftest")
    rng = random.Random(7)
    rows = []
    ok = True

    def case(name, spec, base, mutate, expect):
        nonlocal ok
        events = _load(base)
        n = mutate(events)
        if not n:
            rows.append((name, "SKIPPED: nothing to corrupt in the recorded trace", False))
            ok = False
            return
        path = os.path.join(d, name + ".ndjson")
        _dump(events, path)
        out = pv.tlc_trace(path, os.path.join(d, "meta_" + name), spec=spec)
        got = _labels(out)
        hit = bool(got & set(expect))
        rows.append((name, "corrupted %d event(s); expected one of %s; got %s" % (n, sorted(expect), sorted(got)[:6]), hit))
        ok = ok and hit

    # ---- engine traces against Trace.tla
    trace, scn = pv.record(["solve", "clauses"], 0, "quick", 40, d, name="base")
    base_out = pv.tlc_trace(trace, os.path.join(d, "meta_base"))
    base_labels = _labels(base_out)
    rows.append(("base trace (80 scenarios, %d events)" % base_out.get("events", 0),
                 "accepted=%s, monitor labels on the untouched trace: %s" % (base_out["accepted"], sorted(base_labels)),
                 base_out["accepted"]))
    ok = ok and base_out["accepted"]

    def corrupt_solution(ev):
        k = 0
        for e in ev:
            if e["e"] == "Return" and e.get("res") == "SAT" and len(e["sol"]) > 1 and k < 5:
                e["sol"][1] = e["sol"][1] + 1000          # a value outside every declared domain
                k += 1
        return k
    case("solution_value", "Trace", trace, corrupt_solution, {"C01.Total", "C01.SolutionHolds"})

    def flip_unsat(ev):
        k = 0
        for e in ev:
            if e["e"] == "Return" and e.get("res") == "SAT" and e.get("api") == "satisfy" and k < 3:
                e["res"] = "UNSAT"
                e["sol"] = []
                k += 1
        return k
    case("verdict", "Trace", trace, flip_unsat, {"C02.UnsatRight", "BIND.Rejected"})

    def drop_backtracks(ev):
        n0 = len(ev)
        ev[:] = [e for e in ev if e["e"] != "Backtrack"]
        return n0 - len(ev)
    case("hook_removed_backtrack", "Trace", trace, drop_backtracks, {"BIND.Rejected"})

    def weaken_reason(ev):
        k = 0
        for e in ev:
            if e["e"] == "Propagated" and len(e.get("reason", [])) >= 2 and k < 40:
                e["reason"] = e["reason"][1:]             # one stated fact removed
                k += 1
        return k
    case("reason_weakened", "Trace", trace, weaken_reason, {"C17.ReasonEntails", "C17.NoSupportRemoved", "BIND.Rejected"})

    def corrupt_learned(ev):
        k = 0
        for e in ev:
            if e["e"] == "Learned" and len(e.get("nogood", e.get("preds", []))) >= 2 and k < 40:
                key = "nogood" if "nogood" in e else "preds"
                e[key] = e[key][:1]                        # the nogood is strengthened to one predicate
                k += 1
        return k
    case("learned_nogood", "Trace", trace, corrupt_learned, {"C02.NogoodImplied", "C02.Asserting", "BIND.Rejected"})

    def corrupt_bounds(ev):
        k = 0
        for e in ev:
            if e["e"] == "Bounds" and e["lb"] < e["ub"] and k < 20:
                e["lb"] = e["ub"]
                k += 1
        return k
    case("root_bound", "Trace", trace, corrupt_bounds, {"C12.Encloses", "C12.MatchesDom", "C12.Monotone"})

    # ---- proofs against DrcpTrace.tla
    ptrace, _ = pv.record(["proof"], 0, "quick", 60, d, name="proofs")
    pout = pv.tlc_trace(ptrace, os.path.join(d, "meta_proofs"), spec="DrcpTrace")
    rows.append(("base proofs", "accepted=%s labels=%s" % (pout["accepted"], sorted(_labels(pout))), pout["accepted"]))
    ok = ok and pout["accepted"]

    def drop_premise(ev):
        k = 0
        for e in ev:
            if e["e"] == "PInf" and e["tag"] != 0 and len(e["prem"]) >= 2 and k < 40:
                e["prem"] = e["prem"][1:]
                k += 1
        return k
    case("proof_premise", "DrcpTrace", ptrace, drop_premise, {"C06.InferenceFollowsFromTaggedConstraint"})

    def drop_inferences(ev):
        n0 = len(ev)
        ev[:] = [e for e in ev if not (e["e"] == "PInf" and e["tag"] != 0)]
        return n0 - len(ev)
    case("proof_inferences_removed", "DrcpTrace", ptrace, drop_inferences, {"C06.NogoodDerivable", "C06.BoundDerivable"})

    def flip_bound(ev):
        k = 0
        for e in ev:
            if e["e"] == "PConcl" and not e["unsat"]:
                e["p"]["k"] += 1 if e["p"]["op"] == "ge" else -1
                k += 1
        return k
    case("proof_conclusion", "DrcpTrace", ptrace, flip_bound, {"C06.BoundIsDualBound", "C06.BoundIsTight", "C06.ConclusionMatchesResult"})

    # ---- point queries against BigTrace.tla
    btrace, _ = pv.record(["big"], 0, "quick", 110, d, name="big")

    def flip_point(ev):
        k = 0
        for e in ev:
            if e["e"] == "Point" and e["res"] == "SAT" and k < 5:
                e["res"] = "UNSAT_UA"
                e["sol"] = []
                k += 1
        return k
    case("big_point", "BigTrace", btrace, flip_point, {"C16.PointQuery"})

    for name, what, good in rows:
        pv.log("selftest %-28s %s  %s" % (name, "ok  " if good else "FAIL", what))
    pv.log("selftest: %s" % ("every corruption was detected" if ok else "SOME CORRUPTION WENT UNNOTICED"))
    return 0 if ok else 2
