"""bin/check selftest: demonstrates that the specifications are BOUND to the code.

A freshly recorded execution of the real library is accepted; then one recorded field is corrupted,
or the events of one hook are removed, and the same specification must reject the trace or fire the
monitor that guards the corrupted fact. A corruption that goes unnoticed means the specification
does not constrain that part of the trace (exit 2: the machinery is broken, not the solver)."""
import json
import os
import random

import pv


def _load(path):
    with open(path) as f:
        return [json.loads(line) for line in f]


def _dump(events, path):
    with open(path, "w") as f:
        for e in events:
            f.write(json.dumps(e) + "\n")


def _labels(out):
    ls = {h["mon"] for h in out["mons"]}
    if not out["accepted"]:
        ls.add("BIND.Rejected")
    return ls


def run():
    pv.build_harness()
    d = pv.workdir("selftest")
    rng = random.Random(7)
    rows = []
    ok = True

    def case(name, spec, base, mutate, expect):
        nonlocal ok
        events = _load(base)
        n = mutate(events)
        if not n:
            rows.append((name, "SKIPPED: nothing to corrupt in the recorded trace", False))
            ok = False
            return
        path = os.path.join(d, name + ".ndjson")
        _dump(events, path)
        out = pv.tlc_trace(path, os.path.join(d, "meta_" + name), spec=spec)
        got = _labels(out)
        hit = bool(got & set(expect))
        rows.append((name, "corrupted %d event(s); expected one of %s; got %s" % (n, sorted(expect), sorted(got)[:6]), hit))
        ok = ok and hit

    # ---- engine traces against Trace.tla
    trace, scn = pv.record(["solve", "clauses"], 0, "quick", 40, d, name="base")
    base_out = pv.tlc_trace(trace, os.path.join(d, "meta_base"))
    base_labels = _labels(base_out)
    rows.append(("base trace (80 scenarios, %d events)" % base_out.get("events", 0),
                 "accepted=%s, monitor labels on the untouched trace: %s" % (base_out["accepted"], sorted(base_labels)),
                 base_out["accepted"]))
    ok = ok and base_out["accepted"]

    def corrupt_solution(ev):
        k = 0
        for e in ev:
            if e["e"] == "Return" and e.get("res") == "SAT" and len(e["sol"]) > 1 and k < 5:
                e["sol"][1] = e["sol"][1] + 1000          # a value outside every declared domain
                k += 1
        return k
    case("solution_value", "Trace", trace, corrupt_solution, {"C01.Total", "C01.SolutionHolds"})

    def flip_unsat(ev):
        k = 0
        for e in ev:
            if e["e"] == "Return" and e.get("res") == "SAT" and e.get("api") == "satisfy" and k < 3:
                e["res"] = "UNSAT"
                e["sol"] = []
                k += 1
        return k
    case("verdict", "Trace", trace, flip_unsat, {"C02.UnsatRight", "BIND.Rejected"})

    def drop_backtracks(ev):
        n0 = len(ev)
        ev[:] = [e for e in ev if e["e"] != "Backtrack"]
        return n0 - len(ev)
    case("hook_removed_backtrack", "Trace", trace, drop_backtracks, {"BIND.Rejected"})

    def weaken_reason(ev):
        k = 0
        for e in ev:
            if e["e"] == "Propagated" and len(e.get("reason", [])) >= 2 and k < 40:
                e["reason"] = e["reason"][1:]             # one stated fact removed
                k += 1
        return k
    case("reason_weakened", "Trace", trace, weaken_reason, {"C17.ReasonEntails", "C17.NoSupportRemoved", "BIND.Rejected"})

    def corrupt_learned(ev):
        k = 0
        for e in ev:
            if e["e"] == "Learned" and len(e.get("nogood", e.get("preds", []))) >= 2 and k < 40:
                key = "nogood" if "nogood" in e else "preds"
                e[key] = e[key][:1]                        # the nogood is strengthened to one predicate
                k += 1
        return k
    case("learned_nogood", "Trace", trace, corrupt_learned, {"C02.NogoodImplied", "C02.Asserting", "BIND.Rejected"})

    def corrupt_bounds(ev):
        k = 0
        for e in ev:
            if e["e"] == "Bounds" and e["lb"] < e["ub"] and k < 20:
                e["lb"] = e["ub"]
                k += 1
        return k
    case("root_bound", "Trace", trace, corrupt_bounds, {"C12.Encloses", "C12.MatchesDom", "C12.Monotone"})

    # ---- proofs against DrcpTrace.tla
    ptrace, _ = pv.record(["proof"], 0, "quick", 60, d, name="proofs")
    pout = pv.tlc_trace(ptrace, os.path.join(d, "meta_proofs"), spec="DrcpTrace")
    rows.append(("base proofs", "accepted=%s labels=%s" % (pout["accepted"], sorted(_labels(pout))), pout["accepted"]))
    ok = ok and pout["accepted"]

    def drop_premise(ev):
        k = 0
        for e in ev:
            if e["e"] == "PInf" and e["tag"] != 0 and len(e["prem"]) >= 2 and k < 40:
                e["prem"] = e["prem"][1:]
                k += 1
        return k
    case("proof_premise", "DrcpTrace", ptrace, drop_premise, {"C06.InferenceFollowsFromTaggedConstraint"})

    def drop_inferences(ev):
        n0 = len(ev)
        ev[:] = [e for e in ev if not (e["e"] == "PInf" and e["tag"] != 0)]
        return n0 - len(ev)
    case("proof_inferences_removed", "DrcpTrace", ptrace, drop_inferences, {"C06.NogoodDerivable", "C06.BoundDerivable"})

    def flip_bound(ev):
        k = 0
        for e in ev:
            if e["e"] == "PConcl" and not e["unsat"]:
                e["p"]["k"] += 1 if e["p"]["op"] == "ge" else -1
                k += 1
        return k
    case("proof_conclusion", "DrcpTrace", ptrace, flip_bound, {"C06.BoundIsDualBound", "C06.BoundIsTight", "C06.ConclusionMatchesResult"})

    # ---- point queries against BigTrace.tla
    btrace, _ = pv.record(["big"], 0, "quick", 110, d, name="big")

    def flip_point(ev):
        k = 0
        for e in ev:
            if e["e"] == "Point" and e["res"] == "SAT" and k < 5:
                e["res"] = "UNSAT_UA"
                e["sol"] = []
                k += 1
        return k
    case("big_point", "BigTrace", btrace, flip_point, {"C16.PointQuery"})

    # ---- planted solutions against Witness.tla
    wtrace, _ = pv.record(["planted_chain", "planted_queens", "planted_eq"], 0, "quick", 12, d, name="planted")
    wout = pv.tlc_trace(wtrace, os.path.join(d, "meta_planted"), spec="Witness")
    rows.append(("base planted", "accepted=%s labels=%s" % (wout["accepted"], sorted(_labels(wout))), wout["accepted"]))
    ok = ok and wout["accepted"]

    def corrupt_witness(ev):
        k = 0
        for e in ev:
            if e["e"] == "Witness" and k < 1:
                e["vals"][-1] = e["vals"][-1] + 50        # the planted "solution" leaves its domain
                k += 1
        return k
    case("witness_not_believed", "Witness", wtrace, corrupt_witness, {"BIND.Rejected"})

    def corrupt_big_solution(ev):
        k = 0
        fam = None
        for e in ev:
            if e["e"] == "Reset":
                fam = e["fam"]
            # swap two queens of the first board: a total assignment inside the domains that violates
            # an all-different
            if e["e"] == "Return" and e.get("res") == "SAT" and fam == "planted_queens" and k < 3:
                e["sol"][2] = e["sol"][1]
                k += 1
        return k
    case("large_solution_value", "Witness", wtrace, corrupt_big_solution, {"C01.SolutionHolds"})

    def witness_excluding_nogood(ev):
        # a "learned nogood" that is true under the planted solution: one of its values
        k = 0
        wit = None
        out = []
        for e in ev:
            out.append(e)
            if e["e"] == "Witness":
                wit = e["vals"]
            if e["e"] == "Call" and wit is not None and k < 3:
                out.append({"e": "Learned", "mode": "uip", "backjump": 0,
                            "nogood": [{"x": {"v": 2, "s": 1, "o": 0}, "op": "eq", "k": wit[1]}]})
                k += 1
        ev[:] = out
        return k
    case("nogood_excludes_witness", "Witness", wtrace, witness_excluding_nogood, {"C02.NogoodImplied"})

    # ---- the time-table hook events (TimeTable.tla) against Trace.tla
    ttrace, _ = pv.record(["cumulative3"], 0, "quick", 60, d, name="tt")

    def stale_time_table(ev):
        k = 0
        for e in ev:
            if e["e"] == "TT" and e["what"] == "prop" and k < 5:
                e["same"] = False
                k += 1
        return k
    case("time_table_stale", "Trace", ttrace, stale_time_table, {"C08.TimeTableCurrent"})

    # ---- Domains.tla behaviours replayed on the real Assignments
    beh = os.path.join(d, "dom_beh.ndjson")
    kbeh, _, _ = pv.tlc_generate("Gen_Domains", "Gen_Domains", beh)
    lines = open(beh).read().splitlines()
    picked = [json.loads(lines[i]) for i in (len(lines) // 3, len(lines) // 2, len(lines) - 1)]
    picked[0]["lb"] += 1
    picked[1]["at"][-1]["contains"][0] = not picked[1]["at"][-1]["contains"][0]
    picked[2]["info"][0]["ge"]["pos"] += 1
    bad = os.path.join(d, "dom_bad.ndjson")
    with open(bad, "w") as f:
        for b in picked:
            f.write(json.dumps(b) + "\n")
    resf = os.path.join(d, "dom_res.ndjson")
    pv.sh([pv.PVH, "domains", "--in", bad, "--out", resf], timeout=600)
    res = [json.loads(l) for l in open(resf)]
    detected = sum(1 for r in res if r.get("ok") is not True)
    good = detected == 3
    rows.append(("domain_lookup", "3 expected look-ups of generated Domains.tla states corrupted (lower bound, "
                 "contains at a trail position, update info); %d reported as differing by the replay" % detected, good))
    ok = ok and good

    for name, what, good in rows:
        pv.log("selftest %-28s %s  %s" % (name, "ok  " if good else "FAIL", what))
    pv.log("selftest: %s" % ("every corruption was detected" if ok else "SOME CORRUPTION WENT UNNOTICED"))
    return 0 if ok else 2
