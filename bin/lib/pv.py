"""Machinery shared by all checks: building the harness, recording traces of the real solver,
validating them with TLC against spec/Trace.tla, running TLC model checking, matching monitor hits
against known_findings.json and writing evidence files."""
import collections
import hashlib
import json
import os
import re
import shutil
import subprocess
import sys
import time

ROOT = os.path.dirname(os.path.dirname(os.path.dirname(os.path.abspath(__file__))))
SPEC = os.path.join(ROOT, "spec")
HARNESS = os.path.join(ROOT, "harness")
WORK = os.path.join(ROOT, "work")
EVID = os.path.join(ROOT, "evidence")
PVH = os.path.join(HARNESS, "target", "debug", "pvh")


class ToolError(Exception):
    pass


def log(*a):
    print(*a, flush=True)


def sh(cmd, cwd=None, env=None, timeout=None, check=True):
    e = dict(os.environ)
    e["CARGO_NET_OFFLINE"] = "true"
    if env:
        e.update(env)
    t0 = time.time()
    try:
        p = subprocess.run(cmd, cwd=cwd, env=e, timeout=timeout, stdout=subprocess.PIPE,
                           stderr=subprocess.STDOUT, text=True, errors="replace")
    except subprocess.TimeoutExpired:
        raise ToolError("timeout after %ss: %s" % (timeout, " ".join(cmd)[:200]))
    if check and p.returncode != 0:
        raise ToolError("command failed (%d): %s\n%s" % (p.returncode, " ".join(cmd)[:300], p.stdout[-3000:]))
    return p.returncode, p.stdout, time.time() - t0


_built = False


def build_harness():
    """Rebuilds the harness (and with it pumpkin-solver from /repo's working tree, hooks on)."""
    global _built
    if _built:
        return
    lock = os.path.join(HARNESS, "Cargo.lock")
    if not os.path.exists(lock):
        shutil.copy("/repo/Cargo.lock", lock)
    # Cargo decides by file modification times whether the path dependency on /repo has to be
    # rebuilt; a patch that is applied and reverted again (git apply / git checkout) was observed to
    # leave a stale library behind.  The state of /repo's working tree is therefore fingerprinted
    # and the /repo crates are cleaned from the harness' target directory whenever it changed.
    try:
        head = subprocess.run(["git", "-C", "/repo", "rev-parse", "HEAD"], stdout=subprocess.PIPE, text=True).stdout
        diff = subprocess.run(["git", "-C", "/repo", "diff", "HEAD"], stdout=subprocess.PIPE, text=True,
                              errors="replace").stdout
        state = hashlib.sha1((head + diff).encode()).hexdigest()
    except Exception:
        state = str(time.time())
    marker = os.path.join(HARNESS, "target", ".repo_state")
    old = open(marker).read() if os.path.exists(marker) else ""
    if old != state:
        sh(["cargo", "clean", "--offline", "-p", "pumpkin-solver", "-p", "drcp-format"], cwd=HARNESS,
           timeout=300, check=False)
    rc, out, dt = sh(["cargo", "build", "--offline", "--quiet"], cwd=HARNESS, timeout=1800, check=False)
    if rc != 0:
        # a tree that does not compile is a tool error, not a verdict
        raise ToolError("harness build failed:\n" + out[-4000:])
    os.makedirs(os.path.dirname(marker), exist_ok=True)
    with open(marker, "w") as f:
        f.write(state)
    _built = True


def workdir(name):
    d = os.path.join(WORK, name)
    shutil.rmtree(d, ignore_errors=True)
    os.makedirs(d, exist_ok=True)
    return d


# ------------------------------------------------------------------ TLC
def tlc_trace(trace, metadir, timeout=1500, spec="Trace"):
    """Validates one ndjson trace. Returns dict(accepted, events, matched, unmatched, mons, states)."""
    env = {"TRACE": trace, "JAVA_TOOL_OPTIONS": "-Xss1g -Xmx6g"}
    cmd = ["tlc", "-workers", "1", "-metadir", metadir, "-cleanup", "-noGenerateSpecTE",
           "-config", spec + ".cfg", spec + ".tla"]
    rc, out, dt = sh(cmd, cwd=SPEC, env=env, timeout=timeout, check=False)
    res = {"accepted": None, "mons": [], "states": 0, "raw_tail": out[-2500:], "wall": dt}
    for line in out.splitlines():
        line = line.strip()
        if line.startswith('"MONJ ') or line.startswith('"ENDJ '):
            try:
                inner = json.loads(line)
            except Exception:
                continue
            kind, payload = inner[:4], json.loads(inner[5:])
            if kind == "MONJ":
                res["mons"].append(payload)
            else:
                res.update(payload)
        m = re.match(r"(\d+) states generated, (\d+) distinct states found", line)
        if m:
            res["states"] = int(m.group(1))
            res["distinct"] = int(m.group(2))
    if res["accepted"] is None:
        raise ToolError("TLC gave no verdict on %s (rc=%s):\n%s" % (trace, rc, out[-3000:]))
    return res


def tlc_mc(module, cfg=None, workers=8, timeout=1500, extra=None, env=None):
    """Model checks spec/<module>.tla. Returns dict(ok, states, distinct, violated, out)."""
    md = workdir("mc_" + module + ("_" + cfg if cfg else ""))
    cmd = ["tlc", "-workers", str(workers), "-metadir", md, "-cleanup", "-noGenerateSpecTE",
           "-coverage", "1", "-config", (cfg or module) + ".cfg", module + ".tla"]
    if extra:
        cmd += extra
    e = {"JAVA_TOOL_OPTIONS": "-Xss1g -Xmx12g"}
    if env:
        e.update(env)
    rc, out, dt = sh(cmd, cwd=SPEC, env=e, timeout=timeout, check=False)
    res = {"ok": "Model checking completed. No error has been found." in out, "out": out, "wall": dt,
           "states": 0, "distinct": 0, "violated": None, "rc": rc}
    for line in out.splitlines():
        m = re.match(r"(\d+) states generated, (\d+) distinct states found", line.strip())
        if m:
            res["states"], res["distinct"] = int(m.group(1)), int(m.group(2))
        m = re.match(r"Error: Invariant (\S+) is violated", line.strip())
        if m:
            res["violated"] = m.group(1)
        m = re.match(r"Error: Action property (\S+) is violated", line.strip())
        if m:
            res["violated"] = m.group(1)
    if not res["ok"] and res["violated"] is None and "is violated" not in out and "Assumption" not in out:
        if "Error:" in out:
            res["violated"] = "ERROR"
    shutil.rmtree(md, ignore_errors=True)
    return res


def coverage_counts(out):
    """Per-action counts from `-coverage 1` output: {action: (generated, distinct)}."""
    counts = {}
    for m in re.finditer(r"<(\w+) line \d+, col \d+ to line \d+, col \d+ of module (\w+)>: (\d+):(\d+)", out):
        counts[m.group(1)] = (int(m.group(4)), int(m.group(3)))
    return counts


# ------------------------------------------------------------------ traces of the real solver
def record(fams, seed, tier, count, outdir, name="t", start=0, stride=1):
    build_harness()
    trace = os.path.join(outdir, name + ".ndjson")
    scn = os.path.join(outdir, name + ".scn.ndjson")
    sh([PVH, "trace", "--fams", ",".join(fams), "--seed", str(seed), "--tier", tier,
        "--count", str(count), "--start", str(start), "--stride", str(stride),
        "--out", trace, "--scn", scn], timeout=3000)
    return trace, scn


EXH_CLAUSE_TOTAL = 14 * 16 * 16 * 2


def exh_clause_part(res, tier, seed, adopt):
    """Exhaustive small scope (2 variables, one binary clause, every value selector): thorough
    visits the whole space, quick a seed-rotated seventh of it."""
    if tier == "thorough":
        rec = lambda d: record(["exh_clause"], seed, tier, EXH_CLAUSE_TOTAL, d)
    else:
        stride = 5   # coprime with 14 and 16: every selector and every predicate pair class is hit
        rec = lambda d: record(["exh_clause"], seed, tier, EXH_CLAUSE_TOTAL // stride, d,
                               start=seed % stride, stride=stride)
    tv_part(res, [], 0, seed, tier, "exh_clause", adopt=adopt, recorder=rec)


def run_scenarios(scn_file, outdir, name="r"):
    build_harness()
    trace = os.path.join(outdir, name + ".ndjson")
    sh([PVH, "run", "--scn", scn_file, "--out", trace], timeout=1800)
    return trace


def load_scenarios(path):
    out = {}
    with open(path) as f:
        for line in f:
            if line.strip():
                s = json.loads(line)
                out[(s["fam"], s["id"])] = s
    return out


def event_counts(trace):
    c = collections.Counter()
    with open(trace) as f:
        for line in f:
            try:
                c[json.loads(line)["e"]] += 1
            except Exception:
                pass
    return c


# ------------------------------------------------------------------ known findings
def load_findings():
    p = os.path.join(ROOT, "known_findings.json")
    if not os.path.exists(p):
        return []
    with open(p) as f:
        return json.load(f).get("findings", [])


def value_selectors_of(br):
    """The value-selector indices a brancher spec may use (see harness/src/interp.rs)."""
    kind = br.get("kind")
    if kind == "indep":
        return {br["val"] % 14}
    if kind == "alt":
        return {(br["val"] // 4) % 14, 12}  # 12 = RandomSplitter of the default brancher's backup
    if kind == "dyn":
        return {br["val"] % 14, (br["val"] + 5) % 14}
    return {12}


def scenario_features(s):
    """Structural facts about a scenario that findings are matched on."""
    f = {"lsu": False, "iterate": False, "valsel": set(), "kinds": set(), "interrupt": False,
         "root_only": False, "neg_time_cumulative": False, "element_alias": False,
         "restart_every_conflict_no_db": False, "assume_core": False}
    if s is None:
        return f
    o = s.get("opts", {})
    if o.get("restart") in ("const", "luby", "geom") and o.get("restart_base", 50) <= 3 \
            and o.get("restart_min_conflicts", 10000) <= 2 and o.get("high_lbd_limit", 4000) <= 4:
        f["restart_every_conflict_no_db"] = True
    for st in s["steps"]:
        op = st["op"]
        if op == "optimise" and not st["lus"]:
            f["lsu"] = True
        if op == "iterate":
            f["iterate"] = True
        if op == "assume_solve" and st.get("core"):
            f["assume_core"] = True
        if "br" in st:
            f["valsel"] |= value_selectors_of(st["br"])
        if st.get("stop_at") is not None:
            f["interrupt"] = True
        if op == "post":
            def kinds(c):
                f["kinds"].add(c["k"])
                if c["k"] == "element":
                    if c["idx"]["v"] in [x["v"] for x in c["xs"]] + [c["y"]["v"]]:
                        f["element_alias"] = True
                if isinstance(c.get("c"), dict) and "k" in c["c"]:
                    kinds(c["c"])
            kinds(st["c"])
    return f


def matches(finding, prop, hit, scn):
    """Does the known finding cover this monitor hit? Matching is structural: label plus the
    pattern of the failing input / history named in the finding."""
    if finding.get("status") == "fixed":
        return False
    if finding["property"] != prop:
        return False
    labels = finding.get("labels") or [finding["label"]]
    if hit["mon"] not in labels:
        return False
    m = finding.get("match", {})
    feat = scenario_features(scn)
    if "history_any" in m:
        if not any(feat.get(k) for k in m["history_any"]):
            return False
    if "history_has" in m:
        for k in m["history_has"]:
            if not feat.get(k):
                return False
    if "valsel_any" in m:
        if not (set(m["valsel_any"]) & feat["valsel"]):
            return False
    if "witness_re" in m:
        if not re.search(m["witness_re"], hit.get("w", "")):
            return False
    if "kinds_any" in m:
        if not (set(m["kinds_any"]) & feat["kinds"]):
            return False
    return True


# ------------------------------------------------------------------ evidence
def write_evidence(prop, tier, seed, level, coverage, assumptions, wall, violations):
    os.makedirs(EVID, exist_ok=True)
    ev = {"property_id": prop, "tier": tier, "seed": seed, "level": level, "coverage": coverage,
          "assumptions": assumptions, "wall_s": round(wall, 2), "violations": violations}
    with open(os.path.join(EVID, prop + ".json"), "w") as f:
        json.dump(ev, f, indent=1, sort_keys=True)


def write_replay(prop, label, payload):
    d = os.path.join(WORK, "replay")
    os.makedirs(d, exist_ok=True)
    h = hashlib.sha1(json.dumps(payload, sort_keys=True).encode()).hexdigest()[:10]
    p = os.path.join(d, "%s_%s_%s.json" % (prop, re.sub(r"\W", "_", label), h))
    with open(p, "w") as f:
        json.dump(payload, f, indent=1)
    return p


# ------------------------------------------------------------------ a check = a list of parts
class Result:
    def __init__(self, prop):
        self.prop = prop
        self.violations = []   # (label, replay payload)
        self.known = []        # (finding, hit)
        self.notes = collections.Counter()
        self.cov = {"states": 0, "transitions": 0, "traces_validated_against_impl": 0,
                    "samples": [], "evaluations": 0, "distinct_nontrivial": 0, "events": {},
                    "parts": []}
        self.assumptions = []

    def add_hit(self, hit, scn, findings, extra=None, adopt=None):
        if adopt and hit["mon"] in adopt:
            hit = dict(hit)
            hit["via"] = hit["mon"]
            hit["mon"] = adopt[hit["mon"]]
        label = hit["mon"]
        owner = label.split(".")[0]
        if owner != self.prop and owner != "BIND":
            self.notes[label] += 1
            return
        for f in findings:
            if matches(f, self.prop, hit, scn) or (owner == "BIND" and matches(f, "BIND", hit, scn)):
                self.known.append((f, hit))
                return
        payload = {"property": self.prop, "label": label, "hit": hit, "scenario": scn}
        if extra:
            payload.update(extra)
        self.violations.append((label, payload))


def tv_part(res, fams, count, seed, tier, name, min_events=None, label_filter=None, adopt=None,
            recorder=None):
    """Trace validation of `count` scenarios of each family."""
    d = workdir("%s_%s" % (res.prop, name))
    if recorder:
        trace, scnf = recorder(d)
    else:
        trace, scnf = record(fams, seed, tier, count, d)
    scns = load_scenarios(scnf)
    counts = event_counts(trace)
    out = tlc_trace(trace, os.path.join(d, "meta"))
    findings = load_findings()
    for hit in out["mons"]:
        res.add_hit(hit, scns.get((hit["fam"], hit["id"])), findings, adopt=adopt)
    if not out["accepted"]:
        # find the scenario of the first unmatched event
        scn = None
        try:
            with open(trace) as f:
                lines = f.readlines()
            k = out["matched"]
            cur = None
            for i, line in enumerate(lines[:k + 1]):
                e = json.loads(line)
                if e["e"] == "Reset":
                    cur = (e["fam"], e["id"])
            scn = scns.get(cur)
        except Exception:
            pass
        hit = {"mon": "BIND.Rejected", "fam": scn["fam"] if scn else "?", "id": scn["id"] if scn else -1,
               "i": out.get("matched", 0) + 1, "w": out.get("unmatched", "")}
        res.add_hit(hit, scn, findings)
    res.cov["states"] += out["states"]
    res.cov["transitions"] += max(out["states"] - 1, 0)
    res.cov["traces_validated_against_impl"] += len(scns)
    res.cov["evaluations"] += len(scns)
    for k, v in counts.items():
        res.cov["events"][k] = res.cov["events"].get(k, 0) + v
    res.cov["parts"].append({"part": name, "kind": "trace-validation", "families": fams,
                             "scenarios": len(scns), "events": sum(counts.values()),
                             "accepted": out["accepted"], "tlc_wall_s": round(out["wall"], 1)})
    # distinct scenarios that reached search (non-trivial): count by hashing
    seen = set()
    nontrivial = 0
    for key, s in scns.items():
        h = hashlib.sha1(json.dumps(s["steps"], sort_keys=True).encode()).hexdigest()
        if h not in seen:
            seen.add(h)
            nontrivial += 1
    res.cov["distinct_nontrivial"] += nontrivial
    if len(res.cov["samples"]) < 3:
        for key in list(scns)[:2]:
            res.cov["samples"].append({"scenario": scns[key]})
    shutil.rmtree(os.path.join(d, "meta"), ignore_errors=True)
    if min_events:
        for ev, n in min_events.items():
            if counts.get(ev, 0) < n:
                raise ToolError("vacuity guard: only %d %s events (need %d) in part %s"
                                % (counts.get(ev, 0), ev, n, name))
    return out, counts


def mc_part(res, module, cfg=None, expect_ok=True, workers=8, timeout=1500, required_actions=None,
            label=None):
    """TLC model checking of a design-level module; a violated invariant is a violation of the
    property (the specification transcribes the code)."""
    out = tlc_mc(module, cfg, workers=workers, timeout=timeout)
    name = cfg or module
    res.cov["states"] += out["distinct"]
    res.cov["transitions"] += out["states"]
    res.cov["parts"].append({"part": name, "kind": "model-checking", "ok": out["ok"],
                             "generated": out["states"], "distinct": out["distinct"],
                             "violated": out["violated"], "tlc_wall_s": round(out["wall"], 1)})
    if expect_ok and not out["ok"]:
        if out["violated"] in (None, "ERROR"):
            raise ToolError("TLC failed on %s:\n%s" % (name, out["out"][-3000:]))
        hit = {"mon": label or (res.prop + ".MC." + str(out["violated"])), "fam": "mc", "id": 0, "i": 0,
               "w": out["out"][-1500:]}
        res.add_hit(hit, None, load_findings())
    if not expect_ok and out["ok"]:
        raise ToolError("vacuity guard: %s was expected to violate its invariant but passed" % name)
    if required_actions:
        cc = coverage_counts(out["out"])
        for a in required_actions:
            if cc.get(a, (0, 0))[0] == 0:
                raise ToolError("vacuity guard: action %s never taken in %s" % (a, name))
    return out


def finish(res, tier, seed, level, t0):
    for f, hit in res.known:
        pass
    seen = set()
    for f, hit in res.known:
        if f["id"] in seen:
            continue
        seen.add(f["id"])
        log("KNOWN-FINDING: property=%s %s (%s)" % (res.prop, f["text"], f["id"]))
    cov = res.cov
    cov["known_finding_hits"] = len(res.known)
    cov["other_property_notes"] = dict(res.notes)
    cov.setdefault("rule", "")
    cov["rule"] = cov["rule"] or ("scenarios are generated from (seed, tier, family, index); distinct = distinct step lists; "
                   "every scenario is executed by the real solver and its complete event trace is validated "
                   "by TLC against spec/Trace.tla")
    cov.setdefault("exhaustive", False)
    if not cov["samples"]:
        cov["samples"] = [{"note": "no trace samples in this run"}]
    code = 0
    for label, payload in res.violations[:20]:
        path = write_replay(res.prop, label, payload)
        log("VIOLATION property=%s replay=%s" % (res.prop, path))
        log("  label=%s witness=%s" % (label, str(payload.get("hit", {}).get("w", ""))[:400]))
        code = 1
    write_evidence(res.prop, tier, seed, level, cov, res.assumptions, time.time() - t0,
                   len(res.violations))
    log("check %s tier=%s seed=%d: %d violation(s), %d known-finding hit(s), notes=%s, wall=%.1fs"
        % (res.prop, tier, seed, len(res.violations), len(res.known), dict(res.notes), time.time() - t0))
    return code


# ------------------------------------------------------------------ registry
def n(tier, quick, thorough):
    return thorough if tier == "thorough" else quick


BASE_ASSUME = [
    "spec/Constraints.tla states the documented meaning of every constraint (trusted, ~150 lines, "
    "cross-checked in MC_Constraints)",
    "TLC evaluates the specification correctly",
    "the cfg(pumpkin_verif) hooks report what the code does (binding conditions reject a trace otherwise)",
    "small-scope: <=4 (quick) / <=6 (thorough) variables, domain width <=5 / <=7",
]


# foreign monitors that witness a violation of C01 / C02 / C03 when they fire in a family whose
# purpose is that property
C01_ADOPT = {"C03.IsSolution": "C01.SolutionHolds", "C04.CallbackIsSolution": "C01.SolutionHolds",
             "C04.OptimalIsSolution": "C01.SolutionHolds", "C05.SatIsSolution": "C01.SolutionHolds",
             "C18.AllFixed": "C01.Total", "C11.BestIsSolution": "C01.SolutionHolds"}


def check_C01(res, tier, seed):
    tv_part(res, ["solve"], n(tier, 400, 4000), seed, tier, "solve", adopt=C01_ADOPT)
    tv_part(res, ["clauses"], n(tier, 300, 3000), seed, tier, "clauses", adopt=C01_ADOPT)
    exh_clause_part(res, tier, seed, C01_ADOPT)
    tv_part(res, ["iterate", "optimise", "assume"], n(tier, 100, 1000), seed, tier, "multi", adopt=C01_ADOPT)


C02_ADOPT = {"C03.Complete": "C02.SolutionLost", "C04.UnsatRight": "C02.UnsatRight",
             "C05.PlainUnsatRight": "C02.UnsatRight", "C03.EndKind": "C02.UnsatRight",
             "C10.NoHang": "C02.NoTermination", "C04.OptimalIsBest": "C02.SolutionLost"}


def check_C02(res, tier, seed):
    tv_part(res, ["solve"], n(tier, 400, 4000), seed + 1000, tier, "solve", adopt=C02_ADOPT)
    tv_part(res, ["clauses", "configs"], n(tier, 200, 2000), seed + 1000, tier, "search", adopt=C02_ADOPT,
            min_events={"Learned": 50})
    tv_part(res, ["history", "iterate"], n(tier, 100, 1000), seed, tier, "history", adopt=C02_ADOPT)


def check_C03(res, tier, seed):
    tv_part(res, ["iterate"], n(tier, 300, 3000), seed, tier, "iterate", min_events={"IterSolution": 50})
    tv_part(res, ["clauses", "reif", "cumulative"], n(tier, 150, 1500), seed + 3, tier, "kinds")


def check_C04(res, tier, seed):
    tv_part(res, ["optimise"], n(tier, 400, 4000), seed, tier, "optimise", min_events={"Callback": 30})


def check_C05(res, tier, seed):
    tv_part(res, ["assume"], n(tier, 500, 5000), seed, tier, "assume")


# In the dedicated families a wrong solution set IS the violation of the family's property: the
# generic monitors are adopted under the property's own label.
SOLSET = {"C01.SolutionHolds": "NonSolutionAdmitted", "C03.IsSolution": "NonSolutionAdmitted",
          "C01.Total": "NonSolutionAdmitted", "C03.Complete": "SolutionLost",
          "C03.NoRepeat": "SolutionRepeated", "C02.UnsatRight": "SolutionLost",
          "C02.PostErrRight": "SolutionLost", "C10.NoPanic": "Panic", "C10.NoHang": "Hang",
          "C02.NoTermination": "NoTermination"}


def adopt_for(prop):
    return {k: prop + "." + v for k, v in SOLSET.items()}


def check_C08(res, tier, seed):
    # 144 option combinations are visited index by index; quick: 2 task sets each, thorough: 20
    tv_part(res, ["cumulative"], n(tier, 288, 2880), seed, tier, "cumulative",
            min_events={"IterSolution": 200}, adopt=adopt_for("C08"))


def check_C09(res, tier, seed):
    # 20 kinds x 3 wrappings, index-driven; quick: 4 rounds, thorough: 40
    tv_part(res, ["reif"], n(tier, 240, 2400), seed, tier, "reif", min_events={"IterSolution": 200},
            adopt=adopt_for("C09"))


def check_C07(res, tier, seed):
    # each model is solved under 8 configurations; every answer is compared with the single
    # oracle Sol(M) (equal to the oracle for all configurations => equal to each other)
    adopt = {"C02.UnsatRight": "C07.Verdict", "C01.SolutionHolds": "C07.Verdict", "C01.Total": "C07.Verdict",
             "C03.IsSolution": "C07.SolutionSet", "C03.Complete": "C07.SolutionSet",
             "C03.NoRepeat": "C07.SolutionSet", "C03.EndKind": "C07.Verdict",
             "C04.OptimalIsBest": "C07.Optimum", "C04.OptimalIsSolution": "C07.Optimum",
             "C04.UnsatRight": "C07.Verdict", "C02.NoTermination": "C07.Termination",
             "C10.NoHang": "C07.Termination", "C10.NoPanic": "C07.Panic"}
    out, counts = tv_part(res, ["configs"], n(tier, 160, 1600), seed, tier, "configs", adopt=adopt,
                          min_events={"Learned": 50, "Restart": 5, "NogoodDeleted": 3, "Flip": 5})
    res.cov["config_axes_exercised"] = {k: counts.get(k, 0) for k in
                                        ("Learned", "Restart", "NogoodDeleted", "NogoodAdded", "Flip", "Minimise")}


def check_C11(res, tier, seed):
    adopt = {"C02.UnsatRight": "C11.FalseDefinitive", "C04.UnsatRight": "C11.FalseDefinitive",
             "C04.OptimalIsBest": "C11.FalseDefinitive", "C04.OptimalIsSolution": "C11.FalseDefinitive",
             "C01.SolutionHolds": "C11.FalseDefinitive", "C03.Complete": "C11.FalseDefinitive",
             "C03.IsSolution": "C11.FalseDefinitive", "C03.EndKind": "C11.FalseDefinitive",
             "C10.NoPanic": "C11.Panic", "C10.NoHang": "C11.Hang", "C10.BackAtRoot": "C11.NotUsableAgain",
             "C04.CallbackIsSolution": "C11.BestIsSolution"}

    def rec(d):
        build_harness()
        trace = os.path.join(d, "t.ndjson")
        scn = os.path.join(d, "t.scn.ndjson")
        sh([PVH, "interrupt", "--seed", str(seed), "--tier", tier, "--count", str(n(tier, 30, 300)),
            "--maxk", str(n(tier, 30, 120)), "--out", trace, "--scn", scn], timeout=3000)
        return trace, scn
    out, counts = tv_part(res, [], 0, seed, tier, "interrupt", adopt=adopt, recorder=rec,
                          min_events={"Return": 200})
    res.cov["rule"] = ("fault enumeration: for each base scenario the number of polls P of the uninterrupted "
                       "operation is measured, then the operation is re-run with the termination condition "
                       "firing at poll k for every k in 0..P (sampled if P is large) and retried afterwards")


def tlc_generate(module, cfg, outfile, timeout=900, workers=1, extra=None):
    """Runs TLC on a generator configuration and collects the GENJ lines into an ndjson file."""
    md = workdir("gen_" + cfg)
    cmd = ["tlc", "-workers", str(workers), "-metadir", md, "-cleanup", "-noGenerateSpecTE",
           "-config", cfg + ".cfg", module + ".tla"] + (extra or [])
    rc, out, dt = sh(cmd, cwd=SPEC, env={"JAVA_TOOL_OPTIONS": "-Xss1g -Xmx8g"}, timeout=timeout, check=False)
    n = 0
    states = 0
    with open(outfile, "a") as f:
        for line in out.splitlines():
            line = line.strip()
            if line.startswith('"GENJ '):
                try:
                    f.write(json.loads(line)[5:] + "\n")
                    n += 1
                except Exception:
                    pass
            m = re.match(r"(\d+) states generated, (\d+) distinct states found", line)
            if m:
                states = int(m.group(2))
    shutil.rmtree(md, ignore_errors=True)
    if n == 0:
        raise ToolError("generator %s produced nothing:\n%s" % (cfg, out[-2000:]))
    return n, states, dt


def check_C19(res, tier, seed):
    # (1) the reader grammar as transcribed must give back every step the writer grammar produces
    mc_part(res, "MC_DrcpFormat", "MC_DrcpFormat", label="C19.MC.RoundTrip")
    # vacuity: the grammar as found (before the fix of F5) must violate the invariant
    mc_part(res, "MC_DrcpFormat", "MC_DrcpFormat_asfound", expect_ok=False)
    # (2) every behaviour TLC enumerates is replayed through the real writer and reader
    d = workdir("C19_mbt")
    beh = os.path.join(d, "behaviours.ndjson")
    total = 0
    for cfg in ["Gen_DrcpFormat_1", "Gen_DrcpFormat_2", "Gen_DrcpFormat_lits"]:
        k, states, dt = tlc_generate("MC_DrcpFormat", cfg, beh)
        total += k
        res.cov["parts"].append({"part": cfg, "kind": "behaviour-generation", "behaviours": k,
                                 "states": states, "tlc_wall_s": round(dt, 1)})
        res.cov["states"] += states
    build_harness()
    results = os.path.join(d, "results.ndjson")
    sh([PVH, "drcp", "--in", beh, "--out", results], timeout=1800)
    findings = load_findings()
    bad = collections.Counter()
    n = 0
    with open(results) as f:
        for line in f:
            r = json.loads(line)
            n += 1
            if r.get("ok") is True:
                continue
            bad[r["kind"]] += 1
            if bad[r["kind"]] > 25:
                continue
            hit = {"mon": "C19." + r["kind"], "fam": "drcp", "id": r["n"], "i": r["n"],
                   "w": json.dumps({k: v for k, v in r.items() if k not in ("behaviour",)})[:600]}
            res.add_hit(hit, None, findings, extra={"behaviour": r.get("behaviour")})
    res.cov["traces_validated_against_impl"] += n
    res.cov["evaluations"] += n
    res.cov["distinct_nontrivial"] += n
    res.cov["transitions"] += n
    res.cov["exhaustive"] = True
    res.cov["mismatch_kinds"] = dict(bad)
    with open(beh) as f:
        for i, line in enumerate(f):
            if i in (0, 5000, 17000):
                res.cov["samples"].append(json.loads(line))
    res.cov["rule"] = ("TLC enumerates every writer call over the alphabet of MC_DrcpFormat.tla (all single calls x "
                       "all conclusions, all pairs over a reduced alphabet, all literal definitions); each behaviour "
                       "carries the text and the steps the specification expects; the real ProofWriter output must "
                       "equal the text and the real ProofReader must return the steps")


def check_C10(res, tier, seed):
    tv_part(res, ["history"], n(tier, 500, 5000), seed, tier, "history")


def check_C12(res, tier, seed):
    tv_part(res, ["solve", "history"], n(tier, 300, 3000), seed + 7, tier, "bounds", min_events={"Bounds": 200})


def check_C17(res, tier, seed):
    tv_part(res, ["solve"], n(tier, 400, 4000), seed + 17, tier, "solve", min_events={"Propagated": 50})
    tv_part(res, ["cumulative", "reif", "clauses"], n(tier, 150, 1500), seed + 17, tier, "kinds")
    tv_part(res, ["assume", "history", "optimise", "configs"], n(tier, 60, 600), seed + 17, tier, "multi")


def check_C18(res, tier, seed):
    tv_part(res, ["solve"], n(tier, 500, 5000), seed + 18, tier, "solve", min_events={"Decide": 50})
    tv_part(res, ["clauses", "configs"], n(tier, 150, 1500), seed + 18, tier, "search")


CHECKS = {
    "C01": (check_C01, "model_checking"),
    "C02": (check_C02, "model_checking"),
    "C03": (check_C03, "model_checking"),
    "C04": (check_C04, "model_checking"),
    "C05": (check_C05, "model_checking"),
    "C07": (check_C07, "model_checking"),
    "C11": (check_C11, "fault_enumeration"),
    "C08": (check_C08, "model_checking"),
    "C09": (check_C09, "model_checking"),
    "C10": (check_C10, "model_checking"),
    "C19": (check_C19, "model_checking"),
    "C12": (check_C12, "model_checking"),
    "C17": (check_C17, "model_checking"),
    "C18": (check_C18, "model_checking"),
}


def run_check(prop, tier, seed, replay=None):
    if prop not in CHECKS:
        raise ToolError("no check registered for " + prop)
    t0 = time.time()
    os.makedirs(WORK, exist_ok=True)
    res = Result(prop)
    res.assumptions = list(BASE_ASSUME)
    fn, level = CHECKS[prop]
    if replay:
        return run_replay(res, replay, tier, seed, level, t0)
    fn(res, tier, seed)
    return finish(res, tier, seed, level, t0)


def run_replay(res, path, tier, seed, level, t0):
    with open(path) as f:
        payload = json.load(f)
    scn = payload.get("scenario")
    if not scn:
        raise ToolError("replay file has no scenario")
    d = workdir("%s_replay" % res.prop)
    scnf = os.path.join(d, "scn.ndjson")
    with open(scnf, "w") as f:
        f.write(json.dumps(scn) + "\n")
    trace = run_scenarios(scnf, d)
    out = tlc_trace(trace, os.path.join(d, "meta"))
    findings = load_findings()
    for hit in out["mons"]:
        res.add_hit(hit, scn, findings)
    if not out["accepted"]:
        res.add_hit({"mon": "BIND.Rejected", "fam": scn["fam"], "id": scn["id"], "i": out.get("matched", 0) + 1,
                     "w": out.get("unmatched", "")}, scn, findings)
    res.cov["states"] += out["states"]
    res.cov["transitions"] += max(out["states"] - 1, 0)
    res.cov["traces_validated_against_impl"] += 1
    res.cov["samples"].append({"scenario": scn})
    log("replayed %s: accepted=%s hits=%s" % (path, out["accepted"], [h["mon"] for h in out["mons"]]))
    return finish(res, tier, seed, level, t0)


def selftest():
    log("selftest: not implemented yet")
    return 0
