"""Machinery shared by all checks: building the harness, recording traces of the real solver,
validating them with TLC against spec/Trace.tla, running TLC model checking, matching monitor hits
against known_findings.json and writing evidence files."""
import collections
import hashlib
import json
import os
import re
import shutil
import subprocess
import sys
import time

ROOT = os.path.dirname(os.path.dirname(os.path.dirname(os.path.abspath(__file__))))
SPEC = os.path.join(ROOT, "spec")
HARNESS = os.path.join(ROOT, "harness")
# PV_WORK / PV_EVIDENCE: only for running several seeds side by side while developing; the
# registered commands use the defaults
WORK = os.environ.get("PV_WORK") or os.path.join(ROOT, "work")
EVID = os.environ.get("PV_EVIDENCE") or os.path.join(ROOT, "evidence")
PVH = os.path.join(HARNESS, "target", "debug", "pvh")


class ToolError(Exception):
    pass


def log(*a):
    print(*a, flush=True)


def sh(cmd, cwd=None, env=None, timeout=None, check=True):
    e = dict(os.environ)
    e["CARGO_NET_OFFLINE"] = "true"
    if env:
        e.update(env)
    tmpdir = None
    if cmd and cmd[0] == "tlc":
        # TLC unpacks its standard modules into a fresh directory under java.io.tmpdir on every run
        # and leaves it there: keep that inside the work directory and remove it afterwards
        import uuid
        tmpdir = os.path.join(WORK, "tlctmp_%d_%s" % (os.getpid(), uuid.uuid4().hex[:10]))
        os.makedirs(tmpdir, exist_ok=True)
        e["JAVA_TOOL_OPTIONS"] = (e.get("JAVA_TOOL_OPTIONS", "") + " -Djava.io.tmpdir=" + tmpdir).strip()
    t0 = time.time()
    try:
        p = subprocess.run(cmd, cwd=cwd, env=e, timeout=timeout, stdout=subprocess.PIPE,
                           stderr=subprocess.STDOUT, text=True, errors="replace")
    except subprocess.TimeoutExpired:
        raise ToolError("timeout after %ss: %s" % (timeout, " ".join(cmd)[:200]))
    finally:
        if tmpdir:
            shutil.rmtree(tmpdir, ignore_errors=True)
    if check and p.returncode != 0:
        raise ToolError("command failed (%d): %s\n%s" % (p.returncode, " ".join(cmd)[:300], p.stdout[-3000:]))
    return p.returncode, p.stdout, time.time() - t0


_built = False


def build_harness():
    """Rebuilds the harness (and with it pumpkin-solver from /repo's working tree, hooks on)."""
    global _built
    if _built:
        return
    lock = os.path.join(HARNESS, "Cargo.lock")
    if not os.path.exists(lock):
        shutil.copy("/repo/Cargo.lock", lock)
    # Cargo decides by file modification times whether the path dependency on /repo has to be
    # rebuilt; a patch that is applied and reverted again (git apply / git checkout) was observed to
    # leave a stale library behind.  The state of /repo's working tree is therefore fingerprinted
    # and the /repo crates are cleaned from the harness' target directory whenever it changed.
    try:
        head = subprocess.run(["git", "-C", "/repo", "rev-parse", "HEAD"], stdout=subprocess.PIPE, text=True).stdout
        diff = subprocess.run(["git", "-C", "/repo", "diff", "HEAD"], stdout=subprocess.PIPE, text=True,
                              errors="replace").stdout
        state = hashlib.sha1((head + diff).encode()).hexdigest()
    except Exception:
        state = str(time.time())
    marker = os.path.join(HARNESS, "target", ".repo_state")
    old = open(marker).read() if os.path.exists(marker) else ""
    if old != state:
        sh(["cargo", "clean", "--offline", "-p", "pumpkin-solver", "-p", "drcp-format"], cwd=HARNESS,
           timeout=300, check=False)
    rc, out, dt = sh(["cargo", "build", "--offline", "--quiet"], cwd=HARNESS, timeout=1800, check=False)
    if rc != 0:
        # a tree that does not compile is a tool error, not a verdict
        raise ToolError("harness build failed:\n" + out[-4000:])
    os.makedirs(os.path.dirname(marker), exist_ok=True)
    with open(marker, "w") as f:
        f.write(state)
    _built = True


def workdir(name):
    d = os.path.join(WORK, name)
    shutil.rmtree(d, ignore_errors=True)
    os.makedirs(d, exist_ok=True)
    return d


# ------------------------------------------------------------------ TLC
CHUNK_EVENTS = 250000


def split_trace(trace, chunk=None, boundary="reset"):
    """Splits a recorded trace at scenario boundaries (`Reset` events) into pieces of about `chunk`
    events: TLC aborts on behaviours that are too long (seen at 1.3 M events), and scenarios are
    independent of each other (every `Reset` re-initialises the specification state).
    Returns [(path, offset_in_events)]."""
    chunk = chunk or CHUNK_EVENTS
    with open(trace, errors="replace") as f:
        total = sum(1 for _ in f)
    if total <= chunk + chunk // 2:
        return [(trace, 0)]
    pieces = []
    out = None
    n_in = 0
    with open(trace, errors="replace") as f:
        for k, line in enumerate(f):
            if out is None or (n_in >= chunk and (boundary == "line" or line.startswith('{"e":"Reset"'))):
                if out:
                    out.close()
                path = "%s.part%d" % (trace, len(pieces))
                pieces.append((path, k))
                out = open(path, "w")
                n_in = 0
            out.write(line)
            n_in += 1
    if out:
        out.close()
    return pieces


def tlc_trace(trace, metadir, timeout=9000, spec="Trace", chunk=None, boundary="reset"):
    """Validates one ndjson trace (in pieces if it is very long). Returns dict(accepted, events, matched,
    unmatched, mons, states). boundary="line": every event stands for itself (CLI runs, which carry
    their own absolute index `i`)."""
    pieces = split_trace(trace, chunk, boundary)
    if len(pieces) == 1:
        return tlc_trace_one(trace, metadir, timeout, spec)
    from concurrent.futures import ThreadPoolExecutor
    with ThreadPoolExecutor(max_workers=3) as ex:
        outs = list(ex.map(lambda a: tlc_trace_one(a[1][0], "%s_p%d" % (metadir, a[0]), timeout, spec),
                           enumerate(pieces)))
    res = {"accepted": True, "mons": [], "states": 0, "distinct": 0, "raw_tail": "", "wall": 0.0, "events": 0,
           "pieces": len(pieces)}
    for (path, off), o in zip(pieces, outs):
        for h in o["mons"]:
            if isinstance(h.get("i"), int) and boundary == "reset":
                h["i"] += off
            res["mons"].append(h)
        res["states"] += o.get("states", 0)
        res["distinct"] += o.get("distinct", 0)
        res["wall"] += o.get("wall", 0.0)
        res["events"] += o.get("events", 0) or 0
        if not o["accepted"] and res["accepted"]:
            res["accepted"] = False
            res["matched"] = off + (o.get("matched", 0) or 0)
            res["unmatched"] = o.get("unmatched", "")
            res["raw_tail"] = o.get("raw_tail", "")
        shutil.rmtree("%s_p%d" % (metadir, pieces.index((path, off))), ignore_errors=True)
        os.remove(path)
    return res


def tlc_trace_one(trace, metadir, timeout=9000, spec="Trace"):
    env = {"TRACE": trace, "JAVA_TOOL_OPTIONS": "-Xss1g -Xmx6g"}
    cmd = ["tlc", "-workers", "1", "-metadir", metadir, "-cleanup", "-noGenerateSpecTE",
           "-config", spec + ".cfg", spec + ".tla"]
    rc, out, dt = sh(cmd, cwd=SPEC, env=env, timeout=timeout, check=False)
    res = {"accepted": None, "mons": [], "states": 0, "raw_tail": out[-2500:], "wall": dt}
    for line in out.splitlines():
        line = line.strip()
        if line.startswith('"MONJ ') or line.startswith('"ENDJ '):
            # Print(.., FALSE) of a rejection appends the value: `"ENDJ {..}"  FALSE`
            line = re.sub(r'"\s+(TRUE|FALSE)$', '"', line)
            try:
                inner = json.loads(line)
            except Exception:
                continue
            kind, payload = inner[:4], json.loads(inner[5:])
            if kind == "MONJ":
                res["mons"].append(payload)
            else:
                res.update(payload)
        m = re.match(r"(\d+) states generated, (\d+) distinct states found", line)
        if m:
            res["states"] = int(m.group(1))
            res["distinct"] = int(m.group(2))
    if res["accepted"] is None:
        if res["mons"]:
            # monitors already fired and TLC then aborted (e.g. an answer of the code under test made
            # an oracle set explode): the hits stand, the rest of the trace counts as not validated
            m = re.search(r"The exception was a ([^\n]*)\n: ([^\n]*)", out)
            res["accepted"] = False
            res["matched"] = max(h.get("i", 0) for h in res["mons"])
            res["unmatched"] = "TLC aborted after the monitor hits: " + (m.group(2) if m else "no verdict line")
            return res
        raise ToolError("TLC gave no verdict on %s (rc=%s):\n%s" % (trace, rc, out[-3000:]))
    return res


def tlc_mc(module, cfg=None, workers=8, timeout=1500, extra=None, env=None):
    """Model checks spec/<module>.tla. Returns dict(ok, states, distinct, violated, out)."""
    md = workdir("mc_" + module + ("_" + cfg if cfg else ""))
    cmd = ["tlc", "-workers", str(workers), "-metadir", md, "-cleanup", "-noGenerateSpecTE",
           "-coverage", "1", "-config", (cfg or module) + ".cfg", module + ".tla"]
    if extra:
        cmd += extra
    e = {"JAVA_TOOL_OPTIONS": "-Xss1g -Xmx12g"}
    if env:
        e.update(env)
    rc, out, dt = sh(cmd, cwd=SPEC, env=e, timeout=timeout, check=False)
    res = {"ok": "Model checking completed. No error has been found." in out, "out": out, "wall": dt,
           "states": 0, "distinct": 0, "violated": None, "rc": rc}
    for line in out.splitlines():
        m = re.match(r"(\d+) states generated, (\d+) distinct states found", line.strip())
        if m:
            res["states"], res["distinct"] = int(m.group(1)), int(m.group(2))
        m = re.match(r"Error: Invariant (\S+) is violated", line.strip())
        if m:
            res["violated"] = m.group(1)
        m = re.match(r"Error: Action property (\S+) is violated", line.strip())
        if m:
            res["violated"] = m.group(1)
    if not res["ok"] and res["violated"] is None and "is violated" not in out and "Assumption" not in out:
        if "Error:" in out:
            res["violated"] = "ERROR"
    shutil.rmtree(md, ignore_errors=True)
    return res


def coverage_counts(out):
    """Per-action counts from `-coverage 1` output: {action: (generated, distinct)}."""
    counts = {}
    for m in re.finditer(r"<(\w+) line \d+, col \d+ to line \d+, col \d+ of module (\w+)>: (\d+):(\d+)", out):
        counts[m.group(1)] = (int(m.group(4)), int(m.group(3)))
    return counts


# ------------------------------------------------------------------ traces of the real solver
def record(fams, seed, tier, count, outdir, name="t", start=0, stride=1, env=None, limit=None):
    build_harness()
    trace = os.path.join(outdir, name + ".ndjson")
    scn = os.path.join(outdir, name + ".scn.ndjson")
    sh([PVH, "trace", "--fams", ",".join(fams), "--seed", str(seed), "--tier", tier,
        "--count", str(count), "--start", str(start), "--stride", str(stride),
        "--out", trace, "--scn", scn] + (["--limit", str(limit)] if limit else []), timeout=9000, env=env)
    return trace, scn


EXH_CLAUSE_TOTAL = 14 * 16 * 16 * 2


def exh_clause_part(res, tier, seed, adopt):
    """Exhaustive small scope (2 variables, one binary clause, every value selector): thorough
    visits the whole space, quick a seed-rotated seventh of it."""
    if tier == "thorough":
        rec = lambda d: record(["exh_clause"], seed, tier, EXH_CLAUSE_TOTAL, d)
    else:
        stride = 5   # coprime with 14 and 16: every selector and every predicate pair class is hit
        rec = lambda d: record(["exh_clause"], seed, tier, EXH_CLAUSE_TOTAL // stride, d,
                               start=seed % stride, stride=stride)
    tv_part(res, [], 0, seed, tier, "exh_clause", adopt=adopt, recorder=rec)


def run_scenarios(scn_file, outdir, name="r"):
    build_harness()
    trace = os.path.join(outdir, name + ".ndjson")
    sh([PVH, "run", "--scn", scn_file, "--out", trace], timeout=1800)
    return trace


def load_scenarios(path):
    out = {}
    with open(path) as f:
        for line in f:
            if line.strip():
                s = json.loads(line)
                out[(s["fam"], s["id"])] = s
    return out


def event_counts(trace):
    c = collections.Counter()
    with open(trace) as f:
        for line in f:
            try:
                c[json.loads(line)["e"]] += 1
            except Exception:
                pass
    return c


# ------------------------------------------------------------------ known findings
def load_findings():
    p = os.path.join(ROOT, "known_findings.json")
    if not os.path.exists(p):
        return []
    with open(p) as f:
        return json.load(f).get("findings", [])


def value_selectors_of(br):
    """The value-selector indices a brancher spec may use (see harness/src/interp.rs)."""
    kind = br.get("kind")
    if kind == "indep":
        return {br["val"] % 14}
    if kind == "alt":
        return {(br["val"] // 4) % 14, 12}  # 12 = RandomSplitter of the default brancher's backup
    if kind == "dyn":
        return {br["val"] % 14, (br["val"] + 5) % 14}
    return {12}


def scenario_features(s):
    """Structural facts about a scenario that findings are matched on."""
    f = {"lsu": False, "iterate": False, "valsel": set(), "kinds": set(), "interrupt": False,
         "root_only": False, "neg_time_cumulative": False, "element_alias": False,
         "restart_every_conflict_no_db": False, "assume_core": False, "nolearn_with_assumptions": False}
    if s is None:
        return f
    o = s.get("opts", {})
    if o.get("restart") in ("const", "luby", "geom") and o.get("restart_base", 50) <= 3 \
            and o.get("restart_min_conflicts", 10000) <= 2 and o.get("high_lbd_limit", 4000) <= 4:
        f["restart_every_conflict_no_db"] = True
    for st in s["steps"]:
        op = st["op"]
        if op == "optimise" and not st["lus"]:
            f["lsu"] = True
        if op == "iterate":
            f["iterate"] = True
        if op == "assume_solve" and st.get("core"):
            f["assume_core"] = True
        if op == "assume_solve" and st.get("assum") and o.get("resolver") == "nolearn":
            f["nolearn_with_assumptions"] = True
        if "br" in st:
            f["valsel"] |= value_selectors_of(st["br"])
        if st.get("stop_at") is not None:
            f["interrupt"] = True
        if op == "post":
            def kinds(c):
                f["kinds"].add(c["k"])
                if c["k"] == "element":
                    occ = [c["idx"]["v"], c["y"]["v"]] + [x["v"] for x in c["xs"]]
                    # the same variable as index / right-hand side / array element (F16); repeated
                    # array elements alone are harmless
                    if c["idx"]["v"] in occ[1:] or c["y"]["v"] in occ[2:]:
                        f["element_alias"] = True
                if isinstance(c.get("c"), dict) and "k" in c["c"]:
                    kinds(c["c"])
            kinds(st["c"])
    return f


def matches(finding, prop, hit, scn):
    """Does the known finding cover this monitor hit? Matching is structural: label plus the
    pattern of the failing input / history named in the finding."""
    if finding.get("status") == "fixed":
        return False
    if finding["property"] != prop:
        return False
    labels = finding.get("labels") or [finding["label"]]
    if hit["mon"] not in labels:
        return False
    m = finding.get("match", {})
    feat = scenario_features(scn)
    if "history_any" in m:
        if not any(feat.get(k) for k in m["history_any"]):
            return False
    if "history_has" in m:
        for k in m["history_has"]:
            if not feat.get(k):
                return False
    if "valsel_any" in m:
        if not (set(m["valsel_any"]) & feat["valsel"]):
            return False
    if "witness_re" in m:
        if not re.search(m["witness_re"], hit.get("w", "")):
            return False
    if "kinds_any" in m:
        if not (set(m["kinds_any"]) & feat["kinds"]):
            return False
    return True


# ------------------------------------------------------------------ evidence
def write_evidence(prop, tier, seed, level, coverage, assumptions, wall, violations):
    os.makedirs(EVID, exist_ok=True)
    ev = {"property_id": prop, "tier": tier, "seed": seed, "level": level, "coverage": coverage,
          "assumptions": assumptions, "wall_s": round(wall, 2), "violations": violations}
    with open(os.path.join(EVID, prop + ".json"), "w") as f:
        json.dump(ev, f, indent=1, sort_keys=True)


def write_replay(prop, label, payload):
    d = os.path.join(WORK, "replay")
    os.makedirs(d, exist_ok=True)
    h = hashlib.sha1(json.dumps(payload, sort_keys=True).encode()).hexdigest()[:10]
    p = os.path.join(d, "%s_%s_%s.json" % (prop, re.sub(r"\W", "_", label), h))
    with open(p, "w") as f:
        json.dump(payload, f, indent=1)
    return p


# ------------------------------------------------------------------ a check = a list of parts
class Result:
    def __init__(self, prop):
        self.prop = prop
        self.violations = []   # (label, replay payload)
        self.known = []        # (finding, hit)
        self.notes = collections.Counter()
        self.note_where = {}
        self.cov = {"states": 0, "transitions": 0, "traces_validated_against_impl": 0,
                    "samples": [], "evaluations": 0, "distinct_nontrivial": 0, "events": {},
                    "parts": []}
        self.assumptions = []

    def add_hit(self, hit, scn, findings, extra=None, adopt=None):
        if adopt and hit["mon"] in adopt:
            hit = dict(hit)
            hit["via"] = hit["mon"]
            hit["mon"] = adopt[hit["mon"]]
        label = hit["mon"]
        owner = label.split(".")[0]
        if owner != self.prop and owner != "BIND":
            self.notes[label] += 1
            w = self.note_where.setdefault(label, [])
            if len(w) < 5:
                w.append("%s/%s" % (hit.get("fam"), hit.get("id")))
            return
        for f in findings:
            if matches(f, self.prop, hit, scn) or (owner == "BIND" and matches(f, "BIND", hit, scn)):
                self.known.append((f, hit))
                return
        payload = {"property": self.prop, "label": label, "hit": hit, "scenario": scn}
        if extra:
            payload.update(extra)
        self.violations.append((label, payload))


def tv_part(res, fams, count, seed, tier, name, min_events=None, label_filter=None, adopt=None,
            recorder=None, spec="Trace"):
    """Trace validation of `count` scenarios of each family."""
    d = workdir("%s_%s" % (res.prop, name))
    if recorder:
        trace, scnf = recorder(d)
    else:
        trace, scnf = record(fams, seed, tier, count, d)
    scns = load_scenarios(scnf)
    counts = event_counts(trace)
    out = tlc_trace(trace, os.path.join(d, "meta"), spec=spec)
    findings = load_findings()
    for hit in out["mons"]:
        res.add_hit(hit, scns.get((hit["fam"], hit["id"])), findings, adopt=adopt)
    if not out["accepted"]:
        # find the scenario of the first unmatched event
        scn = None
        try:
            with open(trace) as f:
                lines = f.readlines()
            k = out["matched"]
            cur = None
            for i, line in enumerate(lines[:k + 1]):
                e = json.loads(line)
                if e["e"] == "Reset":
                    cur = (e["fam"], e["id"])
            scn = scns.get(cur)
        except Exception:
            pass
        hit = {"mon": "BIND.Rejected", "fam": scn["fam"] if scn else "?", "id": scn["id"] if scn else -1,
               "i": out.get("matched", 0) + 1, "w": out.get("unmatched", "")}
        res.add_hit(hit, scn, findings)
    res.cov["states"] += out["states"]
    res.cov["transitions"] += max(out["states"] - 1, 0)
    res.cov["traces_validated_against_impl"] += len(scns)
    res.cov["evaluations"] += len(scns)
    for k, v in counts.items():
        res.cov["events"][k] = res.cov["events"].get(k, 0) + v
    res.cov["parts"].append({"part": name, "kind": "trace-validation", "families": fams,
                             "scenarios": len(scns), "events": sum(counts.values()),
                             "accepted": out["accepted"], "tlc_wall_s": round(out["wall"], 1)})
    # distinct scenarios that reached search (non-trivial): count by hashing
    seen = set()
    nontrivial = 0
    for key, s in scns.items():
        h = hashlib.sha1(json.dumps(s["steps"], sort_keys=True).encode()).hexdigest()
        if h not in seen:
            seen.add(h)
            nontrivial += 1
    res.cov["distinct_nontrivial"] += nontrivial
    if len(res.cov["samples"]) < 3:
        for key in list(scns)[:2]:
            res.cov["samples"].append({"scenario": scns[key]})
    shutil.rmtree(os.path.join(d, "meta"), ignore_errors=True)
    if min_events:
        for ev, n in min_events.items():
            if counts.get(ev, 0) < n:
                raise ToolError("vacuity guard: only %d %s events (need %d) in part %s"
                                % (counts.get(ev, 0), ev, n, name))
    return out, counts


def mc_part(res, module, cfg=None, expect_ok=True, workers=8, timeout=1500, required_actions=None,
            label=None):
    """TLC model checking of a design-level module; a violated invariant is a violation of the
    property (the specification transcribes the code)."""
    out = tlc_mc(module, cfg, workers=workers, timeout=timeout)
    name = cfg or module
    res.cov["states"] += out["distinct"]
    res.cov["transitions"] += out["states"]
    res.cov["parts"].append({"part": name, "kind": "model-checking", "ok": out["ok"],
                             "generated": out["states"], "distinct": out["distinct"],
                             "violated": out["violated"], "tlc_wall_s": round(out["wall"], 1)})
    if expect_ok and not out["ok"]:
        if out["violated"] in (None, "ERROR"):
            raise ToolError("TLC failed on %s:\n%s" % (name, out["out"][-3000:]))
        hit = {"mon": label or (res.prop + ".MC." + str(out["violated"])), "fam": "mc", "id": 0, "i": 0,
               "w": out["out"][-1500:]}
        res.add_hit(hit, None, load_findings())
    if not expect_ok and out["ok"]:
        raise ToolError("vacuity guard: %s was expected to violate its invariant but passed" % name)
    if required_actions:
        cc = coverage_counts(out["out"])
        for a in required_actions:
            if cc.get(a, (0, 0))[0] == 0:
                raise ToolError("vacuity guard: action %s never taken in %s" % (a, name))
    return out


def proof_part(res, module, deps, timeout=900):
    """TLAPS: every proof obligation of spec/<module>.tla has to be discharged (run in a scratch copy:
    tlapm keeps its cache next to the module)."""
    d = workdir("tlaps_" + module)
    for m in [module] + list(deps):
        shutil.copy(os.path.join(SPEC, m + ".tla"), d)
    rc, out, dt = sh(["tlapm", "--threads", "8", "--cleanfp", module + ".tla"], cwd=d, timeout=timeout, check=False)
    m = re.search(r"All (\d+) obligations? proved", out)
    f = re.search(r"(\d+)/(\d+) obligations failed", out)
    res.cov["parts"].append({"part": module, "kind": "tlaps-proof", "obligations": int(m.group(1)) if m else
                             (int(f.group(2)) if f else 0), "failed": int(f.group(1)) if f else 0,
                             "wall_s": round(dt, 1)})
    shutil.rmtree(d, ignore_errors=True)
    if m:
        res.cov["evaluations"] += int(m.group(1))
        return
    if f:
        res.add_hit({"mon": res.prop + ".Proof." + module, "fam": "tlaps", "id": 0, "i": 0,
                     "w": out[-1500:]}, None, load_findings())
        return
    raise ToolError("tlapm gave no verdict on %s:\n%s" % (module, out[-2000:]))


def finish(res, tier, seed, level, t0):
    for f, hit in res.known:
        pass
    seen = set()
    for f, hit in res.known:
        if f["id"] in seen:
            continue
        seen.add(f["id"])
        log("KNOWN-FINDING: property=%s %s (%s)" % (res.prop, f["text"], f["id"]))
    cov = res.cov
    cov["known_finding_hits"] = len(res.known)
    cov["other_property_notes"] = dict(res.notes)
    cov["other_property_notes_first_scenarios"] = dict(res.note_where)
    cov.setdefault("rule", "")
    cov["rule"] = cov["rule"] or ("scenarios are generated from (seed, tier, family, index); distinct = distinct step lists; "
                   "every scenario is executed by the real solver and its complete event trace is validated "
                   "by TLC against spec/Trace.tla")
    cov.setdefault("exhaustive", False)
    if not cov["samples"]:
        cov["samples"] = [{"note": "no trace samples in this run"}]
    code = 0
    for label, payload in res.violations[:20]:
        path = write_replay(res.prop, label, payload)
        log("VIOLATION property=%s replay=%s" % (res.prop, path))
        log("  label=%s witness=%s" % (label, str(payload.get("hit", {}).get("w", ""))[:400]))
        code = 1
    write_evidence(res.prop, tier, seed, level, cov, res.assumptions, time.time() - t0,
                   len(res.violations))
    log("check %s tier=%s seed=%d: %d violation(s), %d known-finding hit(s), notes=%s, wall=%.1fs"
        % (res.prop, tier, seed, len(res.violations), len(res.known), dict(res.notes), time.time() - t0))
    return code


# ------------------------------------------------------------------ registry
def n(tier, quick, thorough):
    return thorough if tier == "thorough" else quick


BASE_ASSUME = [
    "spec/Constraints.tla states the documented meaning of every constraint (trusted, ~150 lines, "
    "cross-checked in MC_Constraints)",
    "TLC evaluates the specification correctly",
    "the cfg(pumpkin_verif) hooks report what the code does (binding conditions reject a trace otherwise)",
    "small-scope: <=4 (quick) / <=6 (thorough) variables, domain width <=5 / <=7",
]


# foreign monitors that witness a violation of C01 / C02 / C03 when they fire in a family whose
# purpose is that property
C01_ADOPT = {"C03.IsSolution": "C01.SolutionHolds", "C04.CallbackIsSolution": "C01.SolutionHolds",
             "C04.OptimalIsSolution": "C01.SolutionHolds", "C05.SatIsSolution": "C01.SolutionHolds",
             "C18.AllFixed": "C01.Total", "C11.BestIsSolution": "C01.SolutionHolds"}


def planted_part(res, fam, count, seed, tier, adopt=None, min_events=None):
    """Models beyond the enumeration oracle (hundreds of variables): the scenario carries planted
    solutions, spec/Witness.tla verifies them under Constraints!Holds (an invalid one rejects the
    trace) and decides the recorded answers and every learned nogood against them."""
    # (the wall-clock watchdog is generous here: searches over dozens to hundreds of variables take
    #  seconds in a debug build, more when the machine is loaded)
    rec = lambda d: record([fam], seed, tier, count, d, limit=120)
    return tv_part(res, [], 0, seed, tier, fam, adopt=adopt, spec="Witness", min_events=min_events, recorder=rec)


def check_C01(res, tier, seed):
    tv_part(res, ["solve"], n(tier, 400, 4000), seed, tier, "solve", adopt=C01_ADOPT)
    tv_part(res, ["clauses"], n(tier, 300, 3000), seed, tier, "clauses", adopt=C01_ADOPT)
    exh_clause_part(res, tier, seed, C01_ADOPT)
    tv_part(res, ["iterate", "optimise", "assume"], n(tier, 100, 1000), seed, tier, "multi", adopt=C01_ADOPT)
    # 30-40 variables (several n-queens boards + free variables, every brancher kind, eager restarts)
    # and chains of several hundred variables: totality and direct evaluation of every constraint
    planted_part(res, "planted_queens", n(tier, 200, 2000), seed, tier, adopt=C01_ADOPT)
    planted_part(res, "planted_chain", n(tier, 100, 1000), seed, tier, adopt=C01_ADOPT)


C02_ADOPT = {"C03.Complete": "C02.SolutionLost", "C04.UnsatRight": "C02.UnsatRight",
             "C05.PlainUnsatRight": "C02.UnsatRight", "C03.EndKind": "C02.UnsatRight",
             "C10.NoHang": "C02.NoTermination", "C04.OptimalIsBest": "C02.SolutionLost"}


def domains_part(res):
    """Domains.tla: the concrete domain representation (update stacks, holes, bumping, undo,
    *_at_trail_position, get_update_info) against the reference set semantics: model checked, the
    seeded variants must be rejected, and every reachable state's look-ups are replayed on the
    real Assignments through the hook verif::domain_probe."""
    mc_part(res, "Domains", "Domains", label=res.prop + ".MC.Domains")
    for bug in ("nobump", "noflag", "laterhole"):
        mc_part(res, "Domains", "Domains_" + bug, expect_ok=False)
    d = workdir(res.prop + "_domains")
    beh = os.path.join(d, "behaviours.ndjson")
    if os.path.exists(beh):
        os.remove(beh)
    k, states, dt = tlc_generate("Gen_Domains", "Gen_Domains", beh)
    res.cov["parts"].append({"part": "Gen_Domains", "kind": "behaviour-generation", "behaviours": k,
                             "states": states, "tlc_wall_s": round(dt, 1)})
    build_harness()
    results = os.path.join(d, "results.ndjson")
    sh([PVH, "domains", "--in", beh, "--out", results], timeout=1800)
    findings = load_findings()
    bad = 0
    n_ = 0
    with open(results) as f:
        for line in f:
            r = json.loads(line)
            n_ += 1
            if r.get("ok") is True:
                continue
            bad += 1
            if bad > 20:
                continue
            hit = {"mon": res.prop + ".DomainLookup", "fam": "domains", "id": r["n"], "i": r["n"],
                   "w": json.dumps({k_: v for k_, v in r.items() if k_ != "n"})[:700]}
            res.add_hit(hit, None, findings, extra={"behaviour": r})
    if n_ != k:
        raise ToolError("domain replay: %d results for %d behaviours" % (n_, k))
    res.cov["traces_validated_against_impl"] += n_
    res.cov["evaluations"] += n_
    res.cov["parts"].append({"part": "domains-replay", "kind": "spec-to-implementation replay", "behaviours": n_,
                             "mismatches": bad})


def check_C02(res, tier, seed):
    domains_part(res)
    # design level: the engine actions of Engine.tla (the ones Trace.tla binds to the code) driven
    # nondeterministically over every interleaving of decisions, propagations of any strength,
    # conflicts, 1-UIP learning and backjumps on a small model: learned nogoods are implied, answers
    # are right, every run terminates - PROVIDED every explanation is correct (C17); with one
    # too-weak explanation admitted the same invariants must break
    mc_part(res, "MC_Engine", "MC_Engine_pigeon", label="C02.MC.Engine", timeout=1200)
    mc_part(res, "MC_Engine", "MC_Engine_unsound", expect_ok=False, timeout=1200)
    if tier == "thorough":
        mc_part(res, "MC_Engine", "MC_Engine", label="C02.MC.Engine", timeout=3000)
        mc_part(res, "MC_Engine", "MC_Engine_pigeon_restart", label="C02.MC.Engine", timeout=3000)
    tv_part(res, ["solve"], n(tier, 400, 4000), seed + 1000, tier, "solve", adopt=C02_ADOPT)
    tv_part(res, ["clauses", "configs"], n(tier, 200, 2000), seed + 1000, tier, "search", adopt=C02_ADOPT,
            min_events={"Learned": 50})
    tv_part(res, ["history", "iterate"], n(tier, 100, 1000), seed, tier, "history", adopt=C02_ADOPT)
    # reason chains deeper than the recursion limit of the minimiser (up to 700 variables): no learned
    # nogood may exclude a verified solution, Unsatisfiable is wrong while one exists
    planted_part(res, "planted_chain", n(tier, 240, 2400), seed + 1000, tier, adopt=C02_ADOPT,
                 min_events={"Learned": 100})
    # heavily over-constrained ==/!= clause models with a planted solution under tiny learned-nogood
    # limits (constant clean-up while nogoods asserting equalities are reasons) and, rarely, 60-90
    # variables under default options; a panic instead of a verdict is a violation here
    planted_part(res, "planted_eq", n(tier, 200, 2000), seed + 1000, tier,
                 adopt=dict(C02_ADOPT, **{"C10.NoPanic": "C02.NoVerdict"}), min_events={"Learned": 2000})
    # equality decisions in the middle of wide domains (two trail entries per decision) with conflicts
    # over predicates that one half of the decision merely implies
    tv_part(res, ["eqdecide"], n(tier, 200, 2000), seed + 1000, tier, "eqdecide", adopt=C02_ADOPT,
            min_events={"Learned": 1000})


def check_C03(res, tier, seed):
    tv_part(res, ["iterate"], n(tier, 300, 3000), seed, tier, "iterate", min_events={"IterSolution": 50})
    tv_part(res, ["clauses", "reif", "cumulative"], n(tier, 150, 1500), seed + 3, tier, "kinds")
    # the same solver enumerated twice (and solved once more): whatever a later enumeration yields has
    # to be a solution (it yields nothing while the blocking clauses stay behind, F2)
    tv_part(res, ["iterate2"], n(tier, 200, 2000), seed + 3, tier, "iterate2", min_events={"IterSolution": 500})


def check_C04(res, tier, seed):
    tv_part(res, ["optimise"], n(tier, 400, 4000), seed, tier, "optimise", min_events={"Callback": 30})
    # objectives that straddle zero, mostly maximised, as views with negative scale / offsets
    tv_part(res, ["optimise2"], n(tier, 400, 4000), seed, tier, "optimise2", min_events={"Callback": 100})


def check_C05(res, tier, seed):
    tv_part(res, ["assume"], n(tier, 500, 5000), seed, tier, "assume")


# In the dedicated families a wrong solution set IS the violation of the family's property: the
# generic monitors are adopted under the property's own label.
SOLSET = {"C01.SolutionHolds": "NonSolutionAdmitted", "C03.IsSolution": "NonSolutionAdmitted",
          "C01.Total": "NonSolutionAdmitted", "C03.Complete": "SolutionLost",
          "C03.NoRepeat": "SolutionRepeated", "C02.UnsatRight": "SolutionLost",
          "C02.PostErrRight": "SolutionLost", "C10.NoPanic": "Panic", "C10.NoHang": "Hang",
          "C02.NoTermination": "NoTermination"}


def adopt_for(prop):
    return {k: prop + "." + v for k, v in SOLSET.items()}


def check_C08(res, tier, seed):
    # 144 option combinations are visited index by index; quick: 2 task sets each, thorough: 20
    tv_part(res, ["cumulative"], n(tier, 288, 2880), seed, tier, "cumulative",
            min_events={"IterSolution": 200}, adopt=adopt_for("C08"))
    # 4-5 tasks with bridged gaps / switches re-deriving the same overload (2 x 144 combinations)
    # design level: the notify / propagate / synchronise protocol of the incremental time-tables behind
    # a reification wrapper (TimeTable.tla): the repaired rule keeps the time-table current (TLC for 2
    # tasks x 3 levels with and without incremental backtracking, TLAPS for any number of tasks and
    # levels); the rule as found at the pinned commit must violate it
    mc_part(res, "TimeTable", "TimeTable", label="C08.MC.TimeTableCurrent",
            required_actions=["FixTask", "SetLit", "Propagate", "Backtrack"])
    mc_part(res, "TimeTable", "TimeTable_incr", label="C08.MC.TimeTableCurrent")
    mc_part(res, "TimeTable", "TimeTable_asfound", expect_ok=False)
    proof_part(res, "TimeTableProofs", ["TimeTable", "TimeTableRule"])
    tv_part(res, ["cumulative2"], n(tier, 288, 2880), seed, tier, "cumulative2",
            min_events={"IterSolution": 200}, adopt=adopt_for("C08"))
    # half-reified cumulative whose literal is decided after the start times (the wrapped propagator is
    # notified but does not propagate until blocking clauses make the literal true after a backjump);
    # the hook events TT bind the rule of TimeTable.tla to the code (C08.TimeTableCurrent)
    tv_part(res, ["cumulative3"], n(tier, 288, 2880), seed, tier, "cumulative3",
            min_events={"IterSolution": 200, "TT": 200}, adopt=adopt_for("C08"))
    # 8-14 tasks with a planted schedule, tight capacity, precedences (beyond the enumeration oracle)
    planted_part(res, "planted_sched", n(tier, 288, 2880), seed, tier, adopt=adopt_for("C08"),
                 min_events={"IterSolution": 100})


def check_C09(res, tier, seed):
    # 20 kinds x 4 wrappings (implied_by, reify, negation, plain), index-driven; quick: 4 rounds
    tv_part(res, ["reif"], n(tier, 320, 3200), seed, tier, "reif", min_events={"IterSolution": 200},
            adopt=adopt_for("C09"))
    # several reified constraints over one literal (interaction of the wrapped propagators)
    tv_part(res, ["reif2"], n(tier, 250, 8000), seed, tier, "reif2", min_events={"IterSolution": 200},
            adopt=adopt_for("C09"))
    # half-reified cumulative under all 144 option combinations, literal decided after the start times
    tv_part(res, ["cumulative3"], n(tier, 288, 2880), seed + 9, tier, "cumulative3",
            min_events={"IterSolution": 200}, adopt=adopt_for("C09"))


def check_C07(res, tier, seed):
    # each model is solved under 8 configurations; every answer is compared with the single
    # oracle Sol(M) (equal to the oracle for all configurations => equal to each other)
    adopt = {"C02.UnsatRight": "C07.Verdict", "C01.SolutionHolds": "C07.Verdict", "C01.Total": "C07.Verdict",
             "C03.IsSolution": "C07.SolutionSet", "C03.Complete": "C07.SolutionSet",
             "C03.NoRepeat": "C07.SolutionSet", "C03.EndKind": "C07.Verdict",
             "C04.OptimalIsBest": "C07.Optimum", "C04.OptimalIsSolution": "C07.Optimum",
             "C04.UnsatRight": "C07.Verdict", "C02.NoTermination": "C07.Termination",
             "C10.NoHang": "C07.Termination", "C10.NoPanic": "C07.Panic"}
    out, counts = tv_part(res, ["configs"], n(tier, 240, 1600), seed, tier, "configs", adopt=adopt,
                          min_events={"Learned": 30, "Restart": 5, "NogoodDeleted": 3, "Flip": 5})
    # constant clean-up of the nogood database next to a half-reified element (lazy reasons wrapped
    # by a reification)
    tv_part(res, ["dbclean"], n(tier, 80, 800), seed, tier, "dbclean", adopt=adopt,
            min_events={"IterSolution": 1000})
    # ~30 variables under every brancher kind, eager restarts and random configurations: each run has
    # to report a (total, correct) solution since a verified one exists
    planted_part(res, "planted_queens", n(tier, 200, 2000), seed + 7, tier, adopt=adopt)
    planted_part(res, "planted_eq", n(tier, 160, 1600), seed + 7, tier, adopt=adopt)
    res.cov["config_axes_exercised"] = {k: counts.get(k, 0) for k in
                                        ("Learned", "Restart", "NogoodDeleted", "NogoodAdded", "Flip", "Minimise")}


def check_C11(res, tier, seed):
    adopt = {"C02.UnsatRight": "C11.FalseDefinitive", "C04.UnsatRight": "C11.FalseDefinitive",
             "C04.OptimalIsBest": "C11.FalseDefinitive", "C04.OptimalIsSolution": "C11.FalseDefinitive",
             "C01.SolutionHolds": "C11.FalseDefinitive", "C03.Complete": "C11.FalseDefinitive",
             "C03.IsSolution": "C11.FalseDefinitive", "C03.EndKind": "C11.FalseDefinitive",
             "C10.NoPanic": "C11.Panic", "C10.NoHang": "C11.Hang", "C10.BackAtRoot": "C11.NotUsableAgain",
             "C04.CallbackIsSolution": "C11.BestIsSolution", "C03.NoRepeat": "C11.FalseDefinitive",
             # answers for the model plus the clauses the library added itself during the interrupted
             # call (see F2): "can be asked again and then gives the correct answer" does not hold
             "C10.StaleInternalClauses": "C11.StaleAfterInterrupt"}
    # design level: a solve stopped by its termination condition can leave undelivered domain events
    # behind; a propagator registered afterwards must not be notified of changes that predate it
    # (spec/Notify.tla; the registration order as found at the pinned commit must violate it, F45)
    mc_part(res, "Notify", "Notify", label="C11.MC.NoStaleNotification",
            required_actions=["Assign", "Propagate", "AddPropagator"])
    mc_part(res, "Notify", "Notify_asfound", expect_ok=False)
    proof_part(res, "NotifyProofs", ["Notify"])

    def rec(d):
        build_harness()
        trace = os.path.join(d, "t.ndjson")
        scn = os.path.join(d, "t.scn.ndjson")
        # (the thorough tier multiplies the number of base scenarios and of interruption points, but
        #  keeps the model sizes of the quick tier: with the larger models of the thorough generators
        #  single events made the oracle sets of TLC explode - TLC then aborts or runs for hours, seen
        #  in three thorough runs; the poll enumeration, not the model size, is what C11 is about)
        sh([PVH, "interrupt", "--seed", str(seed), "--tier", "quick", "--count", str(n(tier, 60, 240)),
            "--maxk", str(n(tier, 30, 60)), "--out", trace, "--scn", scn], timeout=3000)
        return trace, scn
    out, counts = tv_part(res, [], 0, seed, tier, "interrupt", adopt=adopt, recorder=rec,
                          min_events={"Return": 200})
    res.cov["rule"] = ("fault enumeration: for each base scenario the number of polls P of the uninterrupted "
                       "operation is measured, then the operation is re-run with the termination condition "
                       "firing at poll k for every k in 0..P (sampled if P is large) and retried afterwards")


def tlc_generate(module, cfg, outfile, timeout=900, workers=1, extra=None):
    """Runs TLC on a generator configuration and collects the GENJ lines into an ndjson file."""
    md = workdir("gen_" + cfg)
    cmd = ["tlc", "-workers", str(workers), "-metadir", md, "-cleanup", "-noGenerateSpecTE",
           "-config", cfg + ".cfg", module + ".tla"] + (extra or [])
    rc, out, dt = sh(cmd, cwd=SPEC, env={"JAVA_TOOL_OPTIONS": "-Xss1g -Xmx8g"}, timeout=timeout, check=False)
    n = 0
    states = 0
    with open(outfile, "a") as f:
        for line in out.splitlines():
            line = line.strip()
            if line.startswith('"GENJ '):
                try:
                    f.write(json.loads(line)[5:] + "\n")
                    n += 1
                except Exception:
                    pass
            m = re.match(r"(\d+) states generated, (\d+) distinct states found", line)
            if m:
                states = int(m.group(2))
    shutil.rmtree(md, ignore_errors=True)
    if n == 0:
        raise ToolError("generator %s produced nothing:\n%s" % (cfg, out[-2000:]))
    return n, states, dt


def check_C19(res, tier, seed):
    # (1) the reader grammar as transcribed must give back every step the writer grammar produces
    mc_part(res, "MC_DrcpFormat", "MC_DrcpFormat", label="C19.MC.RoundTrip")
    # vacuity: the grammar as found (before the fix of F5) must violate the invariant
    mc_part(res, "MC_DrcpFormat", "MC_DrcpFormat_asfound", expect_ok=False)
    # (2) every behaviour TLC enumerates is replayed through the real writer and reader
    d = workdir("C19_mbt")
    beh = os.path.join(d, "behaviours.ndjson")
    total = 0
    for cfg in ["Gen_DrcpFormat_1", "Gen_DrcpFormat_2", "Gen_DrcpFormat_lits"]:
        k, states, dt = tlc_generate("MC_DrcpFormat", cfg, beh)
        total += k
        res.cov["parts"].append({"part": cfg, "kind": "behaviour-generation", "behaviours": k,
                                 "states": states, "tlc_wall_s": round(dt, 1)})
        res.cov["states"] += states
    build_harness()
    results = os.path.join(d, "results.ndjson")
    sh([PVH, "drcp", "--in", beh, "--out", results], timeout=1800)
    findings = load_findings()
    bad = collections.Counter()
    n = 0
    with open(results) as f:
        for line in f:
            r = json.loads(line)
            n += 1
            if r.get("ok") is True:
                continue
            bad[r["kind"]] += 1
            if bad[r["kind"]] > 25:
                continue
            hit = {"mon": "C19." + r["kind"], "fam": "drcp", "id": r["n"], "i": r["n"],
                   "w": json.dumps({k: v for k, v in r.items() if k not in ("behaviour",)})[:600]}
            res.add_hit(hit, None, findings, extra={"behaviour": r.get("behaviour")})
    res.cov["traces_validated_against_impl"] += n
    res.cov["evaluations"] += n
    res.cov["distinct_nontrivial"] += n
    res.cov["transitions"] += n
    res.cov["exhaustive"] = True
    res.cov["mismatch_kinds"] = dict(bad)
    with open(beh) as f:
        for i, line in enumerate(f):
            if i in (0, 5000, 17000):
                res.cov["samples"].append(json.loads(line))
    res.cov["rule"] = ("TLC enumerates every writer call over the alphabet of MC_DrcpFormat.tla (all single calls x "
                       "all conclusions, all pairs over a reduced alphabet, all literal definitions); each behaviour "
                       "carries the text and the steps the specification expects; the real ProofWriter output must "
                       "equal the text and the real ProofReader must return the steps")


# C10: in a history of calls on one solver every wrong answer is "answering for a stale model"
# (answers explained by the clauses the library added itself are reported by the specification as
# C10.StaleInternalClauses instead, see F2)
C10_ADOPT = {k: "C10.LaterAnswerWrong" for k in (
    "C01.SolutionHolds", "C01.Total", "C02.UnsatRight", "C02.PostErrRight", "C03.Complete", "C03.EndKind",
    "C03.IsSolution", "C03.NoRepeat", "C04.CallbackIsSolution", "C04.OptimalIsBest", "C04.OptimalIsSolution",
    "C04.UnsatRight", "C05.CoreImplied", "C05.PlainUnsatRight", "C05.SatIsSolution", "C05.SatRespectsAssumptions",
    "C05.UnsatUARight", "C12.Encloses", "C12.LitValue", "C12.MatchesDom", "C12.WithinDeclared")}
C10_ADOPT["C02.NoTermination"] = "C10.NoHang"


def lifecycle_part(res, trace, name):
    """Conformance of the recorded state declarations (hook event State) with Lifecycle.tla: the
    trace is accepted iff TLC can consume every event, which it reports as a violation of the
    'invariant' NotAllConsumed (LifecycleTrace.tla)."""
    d = workdir("%s_%s" % (res.prop, name))
    sub = os.path.join(d, "states.ndjson")
    k = 0
    with open(trace) as f, open(sub, "w") as g:
        for line in f:
            if '"e":"State"' in line or '"e":"Reset"' in line:
                g.write(line)
                k += 1
    md = os.path.join(d, "meta")
    rc, out, dt = sh(["tlc", "-workers", "1", "-metadir", md, "-cleanup", "-noGenerateSpecTE",
                      "-config", "LifecycleTrace.cfg", "LifecycleTrace.tla"], cwd=SPEC,
                     env={"TRACE": sub, "JAVA_TOOL_OPTIONS": "-Xss1g -Xmx6g"}, timeout=1500, check=False)
    shutil.rmtree(md, ignore_errors=True)
    accepted = "Invariant NotAllConsumed is violated" in out
    finished = "Model checking completed" in out
    if not accepted and not finished:
        raise ToolError("TLC gave no verdict on the life-cycle trace:\n" + out[-2000:])
    prog = [int(x) for x in re.findall(r'PROGRESS (\d+)', out)]
    res.cov["parts"].append({"part": name, "kind": "trace-validation (Lifecycle.tla)", "state_declarations": k,
                             "accepted": accepted, "tlc_wall_s": round(dt, 1)})
    res.cov["traces_validated_against_impl"] += 1
    res.cov["events"]["State"] = res.cov["events"].get("State", 0) + k
    if k < 500:
        raise ToolError("vacuity guard: only %d state declarations recorded" % k)
    if not accepted:
        at = max(prog) if prog else 0
        with open(sub) as f:
            window = f.readlines()[max(0, at - 5): at + 105]
        hit = {"mon": res.prop + ".LifecycleConformance", "fam": "history", "id": -1, "i": at,
               "w": "the state declarations after event %d are not a behaviour of Lifecycle.tla" % at}
        res.add_hit(hit, None, load_findings(), extra={"window": [json.loads(x) for x in window]})


def check_C10(res, tier, seed):
    # design level: every history of public calls over the transcribed life-cycle (Lifecycle.tla);
    # restore_state_at_root as found at the pinned commit (F1) must violate it
    mc_part(res, "Lifecycle", "Lifecycle", label="C10.MC.Lifecycle")
    mc_part(res, "Lifecycle", "Lifecycle_asfound", expect_ok=False)
    tv_part(res, ["history"], n(tier, 500, 5000), seed, tier, "history", adopt=C10_ADOPT)
    # the real solver's state declarations are a behaviour of Lifecycle.tla
    lifecycle_part(res, os.path.join(WORK, "C10_history", "t.ndjson"), "lifecycle")


def check_C12(res, tier, seed):
    tv_part(res, ["solve", "history"], n(tier, 300, 3000), seed + 7, tier, "bounds", min_events={"Bounds": 200})
    # posting only (no search): every kind, wide maximum/minimum/element, unary side clauses
    tv_part(res, ["rootbounds"], n(tier, 950, 9500), seed + 7, tier, "rootbounds", min_events={"Bounds": 2000})


EXH_KIND_TOTAL = 16 * 2 * 48 * 48


def exh_kind_part(res, tier, seed, adopt=None):
    """Exhaustive small scope for explanations: every ordered pair of decisions on one constraint
    (see harness/src/gen.rs fam_exh_kind). thorough: a third of the space, quick: ~1/37 of it, both
    rotated by the seed (strides coprime with 48 so that every predicate pair class is hit)."""
    stride = 5 if tier == "thorough" else 37
    rec = lambda d: record(["exh_kind"], seed, tier, EXH_KIND_TOTAL // stride, d,
                           start=seed % stride, stride=stride)
    tv_part(res, [], 0, seed, tier, "exh_kind", adopt=adopt, recorder=rec)


def check_C17(res, tier, seed):
    exh_kind_part(res, tier, seed)
    tv_part(res, ["solve"], n(tier, 200, 4000), seed + 17, tier, "solve", min_events={"Propagated": 50})
    tv_part(res, ["reif"], n(tier, 160, 4800), seed + 17, tier, "kinds")
    tv_part(res, ["cumulative", "clauses"], n(tier, 80, 1500), seed + 17, tier, "kinds2")
    tv_part(res, ["assume", "history", "optimise", "configs"], n(tier, 60, 600), seed + 17, tier, "multi")
    # cumulative explanations on long profiles with hole propagation (all option combinations)
    tv_part(res, ["cumholes"], n(tier, 144, 1440), seed + 17, tier, "cumholes", min_events={"Propagated": 5000})


C18_ADOPT = {"C01.Total": "C18.AllFixed", "C02.NoTermination": "C18.SearchTerminates",
             "C10.NoHang": "C18.SearchTerminates", "C10.NoPanic": "C18.Panic"}


def check_C18(res, tier, seed):
    tv_part(res, ["solve"], n(tier, 500, 5000), seed + 18, tier, "solve", min_events={"Decide": 50},
            adopt=C18_ADOPT)
    # (no termination claim here: the configurations include the restart-after-every-conflict plus
    # tiny-database live-lock F17, which is not about branchers)
    tv_part(res, ["clauses", "configs"], n(tier, 150, 1500), seed + 18, tier, "search",
            adopt={k: v for k, v in C18_ADOPT.items() if v != "C18.SearchTerminates"})
    # the 11 x 14 selector grid, plain / alternating / dynamic, on models with free variables in front
    # of a conflict-rich core, with eager restarts (4 x 154 combinations; quick: one full round)
    rec = lambda d: record(["branchers"], seed + 18, tier, n(tier, 616, 6160), d, start=(seed % 7) * 616)
    tv_part(res, [], 0, seed, tier, "branchers", adopt=C18_ADOPT, recorder=rec, min_events={"Decide": 1500})
    # ~30 variables: alternating / dynamic / independent branchers under eager restarts have to fix every
    # variable of the reported solution
    planted_part(res, "planted_queens", n(tier, 200, 2000), seed + 18, tier, adopt=C18_ADOPT)


CHECKS = {
    "C01": (check_C01, "model_checking"),
    "C02": (check_C02, "model_checking"),
    "C03": (check_C03, "model_checking"),
    "C04": (check_C04, "model_checking"),
    "C05": (check_C05, "model_checking"),
    "C07": (check_C07, "model_checking"),
    "C11": (check_C11, "fault_enumeration"),
    "C08": (check_C08, "model_checking"),
    "C09": (check_C09, "model_checking"),
    "C10": (check_C10, "model_checking"),
    "C19": (check_C19, "model_checking"),
    "C12": (check_C12, "model_checking"),
    "C17": (check_C17, "model_checking"),
    "C18": (check_C18, "model_checking"),
}


def run_check(prop, tier, seed, replay=None):
    if prop not in CHECKS:
        raise ToolError("no check registered for " + prop)
    t0 = time.time()
    os.makedirs(WORK, exist_ok=True)
    res = Result(prop)
    res.assumptions = list(BASE_ASSUME)
    fn, level = CHECKS[prop]
    if replay:
        return run_replay(res, replay, tier, seed, level, t0)
    fn(res, tier, seed)
    return finish(res, tier, seed, level, t0)


def run_replay(res, path, tier, seed, level, t0):
    with open(path) as f:
        payload = json.load(f)
    scn = payload.get("scenario")
    if not scn:
        raise ToolError("replay file has no scenario")
    d = workdir("%s_replay" % res.prop)
    scnf = os.path.join(d, "scn.ndjson")
    with open(scnf, "w") as f:
        f.write(json.dumps(scn) + "\n")
    trace = run_scenarios(scnf, d)
    out = tlc_trace(trace, os.path.join(d, "meta"))
    findings = load_findings()
    for hit in out["mons"]:
        res.add_hit(hit, scn, findings)
    if not out["accepted"]:
        res.add_hit({"mon": "BIND.Rejected", "fam": scn["fam"], "id": scn["id"], "i": out.get("matched", 0) + 1,
                     "w": out.get("unmatched", "")}, scn, findings)
    res.cov["states"] += out["states"]
    res.cov["transitions"] += max(out["states"] - 1, 0)
    res.cov["traces_validated_against_impl"] += 1
    res.cov["samples"].append({"scenario": scn})
    log("replayed %s: accepted=%s hits=%s" % (path, out["accepted"], [h["mon"] for h in out["mons"]]))
    return finish(res, tier, seed, level, t0)


def selftest():
    import selftest as st
    return st.run()


# ====================================================================== command-line solver (C13, C14, C15)
CLI_DIR = os.path.join(HARNESS, "target", "cli")
CLI = os.path.join(CLI_DIR, "debug", "pumpkin-solver")
_cli_built = False


def build_cli():
    """Builds the real command-line binary from /repo's working tree (guard off: it is the
    program users run), into the harness' own target directory."""
    global _cli_built
    if _cli_built:
        return
    try:
        head = subprocess.run(["git", "-C", "/repo", "rev-parse", "HEAD"], stdout=subprocess.PIPE, text=True).stdout
        diff = subprocess.run(["git", "-C", "/repo", "diff", "HEAD"], stdout=subprocess.PIPE, text=True,
                              errors="replace").stdout
        state = hashlib.sha1((head + diff).encode()).hexdigest()
    except Exception:
        state = str(time.time())
    marker = os.path.join(CLI_DIR, ".repo_state")
    old = open(marker).read() if os.path.exists(marker) else ""
    if old != state and os.path.isdir(CLI_DIR):
        sh(["cargo", "clean", "--offline", "--target-dir", CLI_DIR, "-p", "pumpkin-solver", "-p", "drcp-format"],
           cwd="/repo", timeout=300, check=False)
    rc, out, dt = sh(["cargo", "build", "--offline", "--quiet", "-p", "pumpkin-solver", "--bin", "pumpkin-solver",
                      "--target-dir", CLI_DIR], cwd="/repo", timeout=2400, check=False)
    if rc != 0:
        raise ToolError("building the command-line solver failed:\n" + out[-3000:])
    os.makedirs(CLI_DIR, exist_ok=True)
    with open(marker, "w") as f:
        f.write(state)
    _cli_built = True


def run_cli(path, flags=(), timeout=30):
    try:
        p = subprocess.run([CLI, path] + list(flags), stdout=subprocess.PIPE, stderr=subprocess.PIPE, text=True,
                           errors="replace", timeout=timeout)
        return p.stdout, p.stderr, p.returncode
    except subprocess.TimeoutExpired:
        return "", "TIMEOUT", -9


def panic_summary(stderr, stdout=""):
    """the panic message of a crashed run (or the tail of its output)"""
    m = re.search(r"panicked at ([^\n]*)\n([^\n]*)", stderr or "")
    if m:
        return ("panicked at %s: %s" % (m.group(1).strip(), m.group(2).strip()))[:300]
    return ((stderr or "") + (stdout or ""))[-200:]


def parse_sat_output(stdout):
    status, model = "NONE", []
    for line in stdout.splitlines():
        line = line.strip()
        if line.startswith("s "):
            s = line[2:].strip()
            status = {"SATISFIABLE": "SAT", "UNSATISFIABLE": "UNSAT", "OPTIMUM FOUND": "OPTIMUM",
                      "UNKNOWN": "UNKNOWN"}.get(s, s)
        elif line.startswith("v "):
            model += [int(t) for t in line[2:].split() if t != "0"]
    return status, model


def parse_clause_lines(text):
    """clause lines `l1 l2 ... 0` (proof files)"""
    out, cur = [], []
    for tok in text.split():
        try:
            v = int(tok)
        except ValueError:
            return None
        if v == 0:
            out.append(cur)
            cur = []
        else:
            cur.append(v)
    if cur:
        return None
    return out


def cnf_layouts(nv, clauses, rng):
    """Equivalent spellings of one formula: (name, text)."""
    head = "p cnf %d %d\n" % (nv, len(clauses))
    def cl(c, sep=" "):
        return sep.join(str(x) for x in c + [0])
    out = []
    out.append(("plain", head + "".join(cl(c) + "\n" for c in clauses)))
    out.append(("one-line", head + " ".join(cl(c) for c in clauses) + "\n"))
    out.append(("split-after-literal", head + "".join("\n".join(str(x) for x in c + [0]) + "\n" for c in clauses)))
    out.append(("split-trailing-space", head + "".join(" \n".join(str(x) for x in c + [0]) + "\n" for c in clauses)))
    out.append(("comments-between", "c first\n" + head + "".join("c note %d\n%s\n" % (i, cl(c)) for i, c in enumerate(clauses))))
    out.append(("comment-inside-after-literal",
                head + "".join(("\nc inside\n".join(str(x) for x in c + [0]) + "\n") for c in clauses)))
    out.append(("comment-inside-after-space",
                head + "".join((" \nc inside 1 2 0\n".join(str(x) for x in c + [0]) + "\n") for c in clauses)))
    out.append(("tabs-and-blanks", head + "".join("  \t" + cl(c, "\t ") + " \t\n\n" for c in clauses)))
    out.append(("crlf", head.replace("\n", "\r\n") + "".join(cl(c) + "\r\n" for c in clauses)))
    out.append(("no-final-newline", (head + "".join(cl(c) + "\n" for c in clauses)).rstrip("\n") if clauses else head))
    # put a token across the 8 KiB boundary of the BufReader
    body = "".join(cl(c) + "\n" for c in clauses)
    for shift in (0, 1, 2):
        pad = 8192 - len(head) - 2 - shift
        out.append(("chunk-boundary-%d" % shift, head + "c" + "x" * max(pad - 1, 0) + "\n" + body))
    return out


def random_cnf(rng, nv_max, tier):
    nv = rng.randint(1, nv_max)
    kind = rng.random()
    clauses = []
    if kind < 0.1:
        return nv, []                              # empty formula
    ratio = rng.choice([2.0, 3.5, 4.3, 5.0, 6.0])
    nc = max(1, int(ratio * nv * rng.uniform(0.5, 1.2)))
    nc = min(nc, 60)
    for _ in range(nc):
        k = rng.choice([1, 2, 2, 3, 3, 3]) if nv >= 3 else rng.randint(1, max(1, nv))
        c = []
        for _ in range(k):
            v = rng.randint(1, nv)
            c.append(v if rng.random() < 0.5 else -v)      # duplicates / tautologies happen on purpose
        clauses.append(c)
    if rng.random() < 0.08:
        clauses.insert(rng.randint(0, len(clauses)), [])   # the empty clause
    if rng.random() < 0.15 and clauses:
        clauses.append(list(clauses[0]))                   # duplicate clause
    return nv, clauses


def cli_trace_part(res, events, name, spec="Cli"):
    """Validates CLI run events with TLC against spec/Cli.tla."""
    d = workdir("%s_%s" % (res.prop, name))
    trace = os.path.join(d, "t.ndjson")
    with open(trace, "w") as f:
        for i, e in enumerate(events):
            e = dict(e)
            e["i"] = i + 1
            f.write(json.dumps(e) + "\n")
    out = tlc_trace(trace, os.path.join(d, "meta"), spec=spec, timeout=2400, chunk=20000, boundary="line")
    findings = load_findings()
    byid = {e["id"]: e for e in events}
    for hit in out["mons"]:
        ev = byid.get(hit["id"])
        res.add_hit(hit, None, findings, extra={"event": ev})
    if not out["accepted"]:
        res.add_hit({"mon": "BIND.Rejected", "fam": "cli", "id": -1, "i": out.get("matched", 0) + 1,
                     "w": out.get("unmatched", "")}, None, findings)
    res.cov["states"] += out["states"]
    res.cov["transitions"] += max(out["states"] - 1, 0)
    res.cov["traces_validated_against_impl"] += len(events)
    res.cov["evaluations"] += len(events)
    res.cov["distinct_nontrivial"] += len({json.dumps({k: v for k, v in e.items() if k not in ("id", "i")},
                                                      sort_keys=True) for e in events})
    res.cov["parts"].append({"part": name, "kind": "cli-trace-validation", "runs": len(events),
                             "accepted": out["accepted"], "tlc_wall_s": round(out["wall"], 1)})
    if len(res.cov["samples"]) < 4 and events:
        res.cov["samples"].append(events[0])
        res.cov["samples"].append(events[len(events) // 2])
    shutil.rmtree(os.path.join(d, "meta"), ignore_errors=True)
    return out


def check_C14(res, tier, seed):
    import random
    rng = random.Random(seed * 7919 + 14)
    # (1) the byte automaton against the reference reading, exhaustively within the bound
    mc_part(res, "MC_Dimacs", "MC_Dimacs_fixed", label="C14.MC.SameReading", workers=8, timeout=900)
    mc_part(res, "MC_Dimacs", "MC_Dimacs", expect_ok=False, workers=8, timeout=900)   # the grammar as found must fail
    build_cli()
    d = workdir("C14_files")
    events = []
    eid = 0
    # (2) every well-formed body TLC enumerates, through the real binary, with the clause list the
    #     specification's reference reading expects
    beh = os.path.join(d, "bodies.ndjson")
    k, states, dt = tlc_generate("MC_Dimacs", "Gen_Dimacs_thorough" if tier == "thorough" else "Gen_Dimacs", beh)
    res.cov["parts"].append({"part": "Gen_Dimacs", "kind": "behaviour-generation", "behaviours": k,
                             "states": states, "tlc_wall_s": round(dt, 1)})
    seen = set()
    bodies = []
    with open(beh) as f:
        for line in f:
            b = json.loads(line)
            if b["body"] in seen:
                continue
            seen.add(b["body"])
            bodies.append(b)
    if tier != "thorough" and len(bodies) > 2500:
        rng.shuffle(bodies)
        bodies = bodies[:2500]
    for b in bodies:
        clauses = [[int(x) for x in c] for c in b["clauses"]]
        nv = max([abs(x) for c in clauses for x in c] + [1])
        path = os.path.join(d, "g%d.cnf" % eid)
        with open(path, "w", newline="") as f:
            f.write("p cnf %d %d\n" % (nv, len(clauses)) + b["body"])
        so, se, rc = run_cli(path)
        status, model = parse_sat_output(so)
        events.append({"e": "CnfRun", "id": eid, "nv": nv, "clauses": clauses, "status": status, "model": model,
                       "hasproof": False, "proof": [], "expect": "", "layout": "gen:" + repr(b["body"]),
                       "stderr": panic_summary(se, so) if status == "NONE" else ""})
        os.remove(path)
        eid += 1
    # (3) random and structured formulas in every layout, with and without a proof
    def php(holes):
        pig = holes + 1
        var = lambda p, h: p * holes + h + 1
        cs = [[var(p, h) for h in range(holes)] for p in range(pig)]
        for h in range(holes):
            for p in range(pig):
                for q in range(p + 1, pig):
                    cs.append([-var(p, h), -var(q, h)])
        return pig * holes, cs

    def hard3sat(nv, ratio):
        cs = []
        for _ in range(int(nv * ratio)):
            vs = rng.sample(range(1, nv + 1), 3)
            cs.append([v if rng.random() < 0.5 else -v for v in vs])
        return nv, cs
    structured = [php(2), php(3)] + [hard3sat(rng.randint(7, 10), rng.choice([4.5, 5.5, 7.0]))
                                     for _ in range(n(tier, 25, 250))]
    nform = n(tier, 60, 600)
    for fi in range(nform + len(structured)):
        if fi < len(structured):
            nv, clauses = structured[fi]
            rng.shuffle(clauses)
        else:
            nv, clauses = random_cnf(rng, 10 if tier == "thorough" else 8, tier)
        layouts = cnf_layouts(nv, clauses, rng)
        if tier != "thorough":
            layouts = [layouts[0]] + rng.sample(layouts[1:], 4)
        first = None
        for name, text in layouts:
            path = os.path.join(d, "f%d.cnf" % eid)
            with open(path, "w", newline="") as f:
                f.write(text)
            proof_path = os.path.join(d, "f%d.proof" % eid)
            flags = ["--proof-path", proof_path] if (name == "plain" or rng.random() < 0.3) else []
            flags += rng.choice([[], ["--restart-base-interval", "1", "--restart-min-initial-conflicts", "0"],
                                 ["--learning-max-num-clauses", "1", "--learning-lbd-threshold", "0"],
                                 ["--no-learning-minimise"]])
            so, se, rc = run_cli(path, flags)
            status, model = parse_sat_output(so)
            proof = None
            if flags and flags[0] == "--proof-path" and os.path.exists(proof_path):
                proof = parse_clause_lines(open(proof_path).read())
            if first is None:
                first = status
            events.append({"e": "CnfRun", "id": eid, "nv": nv, "clauses": clauses, "status": status,
                           "model": model, "hasproof": proof is not None and status == "UNSAT",
                           "proof": proof or [], "expect": first, "layout": name,
                           "stderr": panic_summary(se, so) if status == "NONE" else ""})
            for pth in (path, proof_path):
                if os.path.exists(pth):
                    os.remove(pth)
            eid += 1
    cli_trace_part(res, events, "cnf")
    res.cov["rule"] = ("(1) TLC explores the transcribed byte automaton in lock-step with a reference reading; "
                       "(2) every well-formed file body TLC enumerates up to the bound is run through the real "
                       "binary; (3) random CNF formulas are run in up to 13 equivalent layouts with and without "
                       "--proof-path; every run is an event validated by TLC (models, verdicts, RUP of every lemma)")


CHECKS["C14"] = (check_C14, "model_checking")


def random_wcnf(rng, tier):
    nv = rng.randint(1, 5 if tier != "thorough" else 7)
    def clause(maxlen):
        k = rng.randint(1, maxlen)
        return [rng.choice([1, -1]) * rng.randint(1, nv) for _ in range(k)]
    nh = rng.randint(0, 4)
    ns = rng.randint(0, 5 if tier != "thorough" else 7)
    hard = [clause(3) for _ in range(nh)]
    unweighted = rng.random() < 0.35
    soft = []
    for _ in range(ns):
        w = 1 if unweighted else rng.choice([1, 1, 2, 3, 5, 9, 10, 100])
        lits = clause(3) if rng.random() < 0.7 else [rng.choice([1, -1]) * rng.randint(1, nv)]   # unit softs
        soft.append({"w": w, "lits": lits})
    if soft and rng.random() < 0.2 and not unweighted:
        soft.append(dict(soft[0]))                      # duplicate soft clause
    if rng.random() < 0.05 and not unweighted:
        soft.append({"w": 4, "lits": []})               # empty soft clause: always falsified
    if unweighted:
        # the cardinality network needs unit coefficients: unit soft clauses over the same literal
        # would be merged into one term of weight 2
        seen, uniq = set(), []
        for s_ in soft:
            key = tuple(sorted(set(s_["lits"])))
            if len(s_["lits"]) == 1 and key in seen:
                continue
            seen.add(key)
            uniq.append(s_)
        soft = uniq
    if rng.random() < 0.3 and soft:
        # a hard unit that decides a soft clause (placed before or after it by the shuffle below)
        s = rng.choice(soft)
        if s["lits"]:
            hard.append([rng.choice([1, -1]) * s["lits"][0]])
    if rng.random() < 0.1:
        v = rng.randint(1, nv)
        hard += [[v], [-v]]                             # hard clauses unsatisfiable
    return nv, hard, soft, unweighted


def wcnf_text(nv, hard, soft, rng):
    top = sum(s["w"] for s in soft) + 1 + rng.choice([0, 0, 5, 1000])
    lines = [("%d " % top) + " ".join(str(x) for x in c + [0]) for c in hard]
    lines += [("%d " % s["w"]) + " ".join(str(x) for x in s["lits"] + [0]) for s in soft]
    rng.shuffle(lines)
    text = "p wcnf %d %d %d\n" % (nv, len(lines), top) + "\n".join(lines) + ("\n" if lines else "")
    if rng.random() < 0.3:
        text = "c generated\n" + text
    return text


def cardnet_wcnf(rng):
    """Unweighted instances with 5-9 soft clauses (mostly unit softs over distinct variables, some
    longer ones) and hard binary clauses that force several of them to be falsified: the sorting
    network of the cardinality encoding then has blocks of four and more inputs and is strengthened
    over several bounds (optimum 2-5)."""
    nv = rng.randint(6, 8)
    vs = list(range(1, nv + 1))
    rng.shuffle(vs)
    nunit = rng.randint(5, min(nv, 8))
    soft = [{"w": 1, "lits": [v if rng.random() < 0.8 else -v]} for v in vs[:nunit]]
    for _ in range(rng.randint(0, 2)):
        soft.append({"w": 1, "lits": [rng.choice([1, -1]) * v for v in rng.sample(range(1, nv + 1), 2)]})
    hard = []
    units = [s_["lits"][0] for s_ in soft if len(s_["lits"]) == 1]
    rng.shuffle(units)
    # pairs of unit softs that cannot both hold
    for i in range(0, len(units) - 1, 2):
        if rng.random() < 0.8:
            hard.append([-units[i], -units[i + 1]])
    for _ in range(rng.randint(0, 3)):
        hard.append([rng.choice([1, -1]) * v for v in rng.sample(range(1, nv + 1), rng.randint(2, 3))])
    return nv, hard, soft, True


def check_C15(res, tier, seed):
    import random
    rng = random.Random(seed * 104729 + 15)
    build_cli()
    d = workdir("C15_files")
    events = []
    eid = 0
    pair = 0
    nrand = n(tier, 250, 2500)
    for fi in range(nrand + n(tier, 60, 600)):
        nv, hard, soft, unweighted = random_wcnf(rng, tier) if fi < nrand else cardnet_wcnf(rng)
        text = wcnf_text(nv, hard, soft, rng)
        pair += 1
        encs = ["generalized-totalizer"] + (["cardinality-network"] if unweighted else [])
        for enc in encs:
            path = os.path.join(d, "w%d.wcnf" % eid)
            with open(path, "w") as f:
                f.write(text)
            so, se, rc = run_cli(path, ["--upper-bound-encoding", enc])
            status, model = parse_sat_output(so)
            olines = []
            for line in so.splitlines():
                if line.startswith("o "):
                    try:
                        olines.append(int(line[2:].strip()))
                    except ValueError:
                        pass
            events.append({"e": "WcnfRun", "id": eid, "nv": nv, "hard": hard, "soft": soft, "olines": olines,
                           "status": status, "model": model, "enc": enc, "pair": pair if len(encs) == 2 else 0,
                           "stderr": panic_summary(se, so) if status not in ("OPTIMUM", "UNSAT") else "",
                           "text": text})
            os.remove(path)
            eid += 1
    cli_trace_part(res, events, "wcnf")
    res.cov["rule"] = ("random WCNF instances (unit / empty / duplicate soft clauses, hard units deciding soft clauses "
                       "before or after them in the file, hard-unsatisfiable instances) are run through the real "
                       "binary with both upper-bound encodings (the cardinality network on unweighted instances); "
                       "TLC computes the minimum cost by enumeration and checks o-lines, status and model")


CHECKS["C15"] = (check_C15, "model_checking")


def check_C13(res, tier, seed):
    import random
    import fzn
    rng = random.Random(seed * 15485863 + 13)
    build_cli()
    d = workdir("C13_files")
    events = []
    eid = 0
    flagsets = [[], ["-a"], ["-f"], ["-a", "-f"]]
    for mi in range(n(tier, 150, 1500)):
        text, desc, outspec = fzn.generate(rng, tier)
        path = os.path.join(d, "m%d.fzn" % mi)
        with open(path, "w") as f:
            f.write(text)
        sets = flagsets if tier == "thorough" else [flagsets[mi % 4], flagsets[(mi + 1) % 4]]
        for fl in sets:
            flags = list(fl)
            if desc["method"] == "optimise":
                flags += ["--optimisation-strategy", rng.choice(["linear-sat-unsat", "linear-unsat-sat"])]
            so, se, rc = run_cli(path, flags, timeout=60)
            o = fzn.parse_output(so, outspec)
            ev = dict(desc)
            ev.update({"e": "FznRun", "id": eid, "blocks": o["blocks"], "complete": o["complete"],
                       "unsat": o["unsat"], "all": "-a" in fl, "exit": rc if not o["garbage"] else (rc or 97),
                       "stderr": (panic_summary(se) if rc != 0 else "") + " ".join(o["garbage"])[:200],
                       "flags": flags, "text": text})
            events.append(ev)
            eid += 1
        os.remove(path)
    cli_trace_part(res, events, "fzn")
    res.cov["programs"] = len(events)
    res.cov["disagreements_checked"] = len(events)
    res.cov["rule"] = ("FlatZinc models are generated from a description over the supported builtins (ranges, sets, "
                       "singletons, fixed values, aliases, output arrays, search annotations that need not cover all "
                       "variables); the real binary is run with {-, -a, -f, -a -f} and both optimisation strategies; "
                       "TLC maps every builtin to spec/Constraints.tla, enumerates the solutions and checks every "
                       "printed block, completeness under -a, the unsatisfiable marker and optimality of the last block")


CHECKS["C13"] = (check_C13, "translation_validation")


def check_C20(res, tier, seed):
    import random
    build_harness()
    d = workdir("C20_twice")
    findings = load_findings()
    fams = ["solve", "configs", "iterate", "optimise", "assume", "clauses", "cumulative", "reif"]
    count = n(tier, 16, 250)
    # (1) library runs: the same scenarios in two fresh processes (different ASLR / hash seeds).
    #     Every search is cut after a few hundred polls in the quick tier: one long search would
    #     otherwise be most of the compared events for some seeds and none of them for others.
    cap = {"PVH_POLL_CAP": "400"} if tier == "quick" else None
    t1, s1 = record(fams, seed, tier, count, d, name="a", env=cap)
    t2, s2 = record(fams, seed, tier, count, d, name="b", env=cap)
    env = {"TRACE": t1, "TRACE2": t2, "JAVA_TOOL_OPTIONS": "-Xss1g -Xmx8g"}
    md = os.path.join(d, "meta")
    rc, out, dt = sh(["tlc", "-workers", "1", "-metadir", md, "-cleanup", "-noGenerateSpecTE",
                      "-config", "Determinism.cfg", "Determinism.tla"], cwd=SPEC, env=env, timeout=2400,
                     check=False)
    scns = load_scenarios(s1)
    accepted = None
    states = 0
    nh = 0
    for line in out.splitlines():
        line = line.strip()
        if line.startswith('"MONJ ') or line.startswith('"ENDJ '):
            inner = json.loads(line)
            payload = json.loads(inner[5:])
            if inner.startswith("MONJ"):
                nh += 1
                if nh <= 20:
                    res.add_hit(payload, scns.get((payload["fam"], payload["id"])), findings)
            else:
                accepted = payload["accepted"]
        m = re.match(r"(\d+) states generated", line)
        if m:
            states = int(m.group(1))
    if accepted is None:
        raise ToolError("TLC gave no verdict on the two traces:\n" + out[-2000:])
    shutil.rmtree(md, ignore_errors=True)
    res.cov["states"] += states
    res.cov["transitions"] += max(states - 1, 0)
    res.cov["traces_validated_against_impl"] += 2 * len(scns)
    res.cov["evaluations"] += len(scns)
    res.cov["distinct_nontrivial"] += len(scns)
    res.cov["parts"].append({"part": "library-two-processes", "scenarios": len(scns), "events_compared": states - 1,
                             "tlc_wall_s": round(dt, 1)})
    for key in list(scns)[:2]:
        res.cov["samples"].append({"scenario": scns[key]})
    # (2) command-line runs: output, statistics (minus wall-clock ones) and proof bytes, run twice
    build_cli()
    import fzn
    rng = random.Random(seed * 31 + 20)
    fd = workdir("C20_files")
    nd = 0
    ncli = 0

    def norm(text):
        keep = []
        for line in text.splitlines():
            low = line.lower()
            if "time" in low or "seconds" in low or " ms" in low:
                continue                      # wall-clock derived statistics are excluded
            keep.append(line)
        return "\n".join(keep)

    def twice(path, flags, proof=None):
        nonlocal nd, ncli
        outs = []
        for _ in range(2):
            fl = list(flags)
            pp = None
            if proof:
                pp = path + ".proof"
                fl += ["--proof-path", pp]
            so, se, rc = run_cli(path, fl, timeout=240)
            pb = ""
            if pp and os.path.exists(pp):
                pb = open(pp, errors="replace").read()
                os.remove(pp)
                lp = pp.replace(".proof", ".lits")
                for extra in (lp, os.path.splitext(pp)[0] + ".lits"):
                    if os.path.exists(extra):
                        pb += open(extra, errors="replace").read()
                        os.remove(extra)
            outs.append((norm(so), rc, pb))
        if any(o[1] == -9 for o in outs):
            # a run that hit the harness' wall-clock limit produced no (complete) output: there is
            # nothing to compare (seen under load in the thorough tier); counted, not judged
            res.cov["events"]["cli_timeouts"] = res.cov["events"].get("cli_timeouts", 0) + 1
            return
        ncli += 1
        if outs[0] != outs[1]:
            nd += 1
            hit = {"mon": "C20.CliSameOutput", "fam": "cli", "id": ncli, "i": ncli,
                   "w": json.dumps({"flags": flags, "a": outs[0][0][-300:], "b": outs[1][0][-300:]})[:900]}
            res.add_hit(hit, None, findings, extra={"file": open(path).read()})

    for i in range(n(tier, 25, 250)):
        nv, clauses = random_cnf(rng, 10, tier)
        p = os.path.join(fd, "c%d.cnf" % i)
        open(p, "w").write(cnf_layouts(nv, clauses, rng)[0][1])
        twice(p, ["-s", "-r", str(rng.randint(0, 99))], proof=True)
        os.remove(p)
        nv, hard, soft, unw = random_wcnf(rng, tier)
        p = os.path.join(fd, "w%d.wcnf" % i)
        open(p, "w").write(wcnf_text(nv, hard, soft, rng))
        twice(p, ["-s", "-r", str(rng.randint(0, 99))])
        os.remove(p)
        text, desc, outspec = fzn.generate(rng, tier)
        p = os.path.join(fd, "m%d.fzn" % i)
        open(p, "w").write(text)
        twice(p, ["-s", "-a", "-r", str(rng.randint(0, 99))] + rng.choice([[], ["-f"]]), proof=rng.random() < 0.5)
        os.remove(p)
    # (3) larger inputs: reproducibility needs no oracle, and iteration-order effects need ties (many
    #     equal weights, many Boolean decisions) to show within two runs
    for i in range(n(tier, 12, 120)):
        nv = rng.randint(12, 24)
        hard = [[rng.choice([1, -1]) * rng.randint(1, nv) for _ in range(3)] for _ in range(rng.randint(10, 30))]
        soft = [{"w": rng.choice([1, 1, 1, 2]), "lits": [rng.choice([1, -1]) * rng.randint(1, nv)
                                                       for _ in range(rng.randint(1, 2))]} for _ in range(rng.randint(15, 40))]
        p = os.path.join(fd, "W%d.wcnf" % i)
        open(p, "w").write(wcnf_text(nv, hard, soft, rng))
        twice(p, ["-s", "-r", str(rng.randint(0, 99)), "--upper-bound-encoding",
                  rng.choice(["generalized-totalizer", "generalized-totalizer", "cardinality-network"])
                  if all(s_["w"] == 1 for s_ in soft) and len({tuple(s_["lits"]) for s_ in soft if len(s_["lits"]) == 1}) == len([1 for s_ in soft if len(s_["lits"]) == 1])
                  else "generalized-totalizer"])
        os.remove(p)
        nb = rng.randint(8, 14)
        decls = ["var bool: b%d :: output_var;" % k for k in range(nb)]
        cons = []
        for _ in range(rng.randint(3, 8)):
            pos = rng.sample(range(nb), rng.randint(1, 3))
            neg = rng.sample(range(nb), rng.randint(0, 2))
            cons.append("constraint bool_clause([%s], [%s]);" % (", ".join("b%d" % k for k in pos), ", ".join("b%d" % k for k in neg)))
        order = list(range(nb))
        rng.shuffle(order)
        solve = "solve :: bool_search([%s], %s, %s, complete) satisfy;" % (
            ", ".join("b%d" % k for k in order), rng.choice(["input_order", "first_fail"]),
            rng.choice(["indomain_random", "indomain_random", "indomain_min", "indomain_max"]))
        p = os.path.join(fd, "B%d.fzn" % i)
        open(p, "w").write("\n".join(decls + cons + [solve]) + "\n")
        twice(p, ["-s", "-r", str(rng.randint(0, 99))] + rng.choice([[], ["-a"]]))
        os.remove(p)
    res.cov["traces_validated_against_impl"] += 2 * ncli
    res.cov["evaluations"] += ncli
    res.cov["distinct_nontrivial"] += ncli
    res.cov["parts"].append({"part": "cli-twice", "runs": 2 * ncli, "differences": nd})
    res.cov["explanation"] = ("two-run hyper-property: (1) the complete hook-event streams of the same scenarios recorded in "
                              "two fresh processes are consumed in lock-step by TLC (spec/Determinism.tla) and must be "
                              "equal event by event; (2) CNF/WCNF/FlatZinc files are run twice through the real binary with "
                              "-s and a seed, and output, statistics (without wall-clock ones) and proof bytes are compared")
    res.cov["rule"] = res.cov["explanation"]


CHECKS["C20"] = (check_C20, "other")


def check_C16(res, tier, seed):
    # (1) the exact arithmetic the oracle computes with: BigInt.tla against TLC's native integers
    #     (where those suffice) and hand-computed values beyond 32 bits (ASSUMEs of MC_BigInt)
    mc_part(res, "MC_BigInt", "MC_BigInt", label="C16.MC.BigInt")
    # (2) point queries at the 32-bit boundaries, decided by BigHolds inside TLC
    count = n(tier, 1100, 11000)
    out, counts = tv_part(res, ["big"], count, seed, tier, "bigpoints", spec="BigTrace",
                          min_events={"Point": count * 3, "Bounds": count})
    d = os.path.join(WORK, "C16_bigpoints")
    by = collections.Counter()
    kinds = collections.Counter()
    with open(os.path.join(d, "t.ndjson")) as f:
        for line in f:
            e = json.loads(line)
            if e["e"] == "Point":
                by["point_" + e["res"]] += 1
            elif e["e"] == "Return":
                by["satisfy_" + e["res"]] += 1
            elif e["e"] == "PostEnd":
                by["post_ok" if e["ok"] else "post_failed"] += 1
            elif e["e"] == "Post":
                kinds[e["c"]["k"]] += 1
    res.cov["answers"] = dict(by)
    res.cov["constraint_kinds"] = dict(kinds)
    for need in ("point_SAT", "point_UNSAT_UA", "post_failed", "satisfy_SAT"):
        if by[need] < count // 50:
            raise ToolError("vacuity guard: only %d %s answers in the big family" % (by[need], need))
    res.cov["rule"] = ("every answer of the library at a total point (satisfy_under_assumptions with x = v for every "
                       "variable), every root bound, every returned solution and every UNSAT verdict is compared "
                       "with the constraint's meaning evaluated in exact sign+limb arithmetic (BigInt.tla) inside "
                       "TLC; magnitudes 46340..2^31-1, overflow-checked build so that a wrapped intermediate is a "
                       "recorded panic")
    res.assumptions.append("views whose own values (scale*x+offset over the variable's range) leave the i32 range "
                           "are outside the admitted inputs; -2^31 itself is not used as a bound (negation of a "
                           "bound must be representable)")
    res.assumptions.append("a scenario that does not finish within the watchdog limit is reported as C16x.SlowOrHung "
                           "(bounds propagation over 2^30 values may converge one value at a time); termination is "
                           "not part of C16")


CHECKS["C16"] = (check_C16, "exploration")


def check_C06(res, tier, seed):
    # (1) the checker itself: whatever reverse propagation (Drcp.tla RUP) accepts is semantically
    #     implied by the clauses used, on an enumerated universe of clauses (ASSUMEs of MC_Drcp)
    mc_part(res, "MC_Drcp", "MC_Drcp", label="C06.MC.Checker")
    # (2) the trace is the proof: models with every constraint tagged, solved to UNSAT / optimal with
    #     scaffold / full / hinted DRCP logging; the .drcp and .lits files are tokenised by the harness
    #     and replayed through the checker against the meaning of the posted model
    count = n(tier, 270, 2700)
    out, counts = tv_part(res, ["proof"], count, seed, tier, "proofs", spec="DrcpTrace",
                          min_events={"PInf": count, "PNogood": count, "PConcl": count // 2})
    by = collections.Counter()
    cur = None
    with open(os.path.join(WORK, "C06_proofs", "t.ndjson")) as f:
        for line in f:
            e = json.loads(line)
            if e["e"] == "Reset":
                cur = e["opts"]["proof"]
            elif e["e"] == "Return":
                by[cur + ":" + e["api"] + ":" + e["res"]] += 1
            elif e["e"] == "PConcl":
                by[cur + ":conclusion:" + ("UNSAT" if e["unsat"] else "bound")] += 1
    res.cov["results_by_proof_mode"] = dict(by)
    for mode in ("scaffold", "full", "hints"):
        for what in ("conclusion:UNSAT", "conclusion:bound"):
            if by[mode + ":" + what] < count // 60:
                raise ToolError("vacuity guard: only %d %s proofs with %s" % (by[mode + ":" + what], mode, what))
    res.cov["rule"] = ("every inference step must follow from the single constraint it is tagged with (semantic "
                       "entailment over the declared domains, Constraints.tla); untagged inferences must be an "
                       "improvement step of the optimisation, pure domain reasoning, or follow from live nogoods; "
                       "every nogood must be implied by the model (plus the improvement assumptions made so far) "
                       "and, in full/hinted proofs, be derivable by reverse propagation over atomic constraints "
                       "(Drcp.tla) from the live nogoods and the inferences logged since the previous nogood; "
                       "UNSAT needs the empty nogood and an unsatisfiable model; a bound conclusion must be a "
                       "tight dual bound over the objective, match the returned optimum and be derivable; every "
                       "code must be defined in the .lits file")
    res.assumptions.append("constraints are posted with tags; add_clause / constraints::clause / conjunction are not "
                           "used in proof scenarios (the library asserts 'tagging clauses is not implemented'), and "
                           "every variable is named (the proof writer panics on unnamed variables)")
    res.assumptions.append("hints are optional advice in the format definition: a nogood whose hinted steps alone do "
                           "not suffice but which is derivable from the live steps is reported as C06x.HintsSufficient "
                           "(informational)")


CHECKS["C06"] = (check_C06, "model_checking")
