"""Generator of small FlatZinc models together with their description in the vocabulary of
spec/Constraints.tla (the description, not the concrete syntax, is what TLC reads), and parser of the
command-line solver's FlatZinc output protocol."""
import json
import re

DUMMY = 1  # variable 1 of the specification is the constant 1


def const(c):
    return {"v": DUMMY, "s": c, "o": 0}


class Model:
    def __init__(self, rng, tier):
        self.rng = rng
        self.tier = tier
        self.doms = [[1]]          # TLA+ domains, index 0 = variable 1 (dummy)
        self.names = {}            # name -> TLA+ variable index (1-based)
        self.isbool = {}
        self.decls = []            # fzn text lines
        self.cons = []             # TLA+ constraint records
        self.ctext = []            # fzn constraint lines
        self.out = []              # [(name, [var idx...], is_array, isbool)]
        self.space = 1
        self.params = {}           # parameter name -> value / list
        self.counter = 0

    # ------------------------------------------------------------ variables
    def fresh(self, prefix):
        self.counter += 1
        return "%s%d" % (prefix, self.counter)

    def new_int(self, output=True):
        rng = self.rng
        name = self.fresh("x")
        width = rng.randint(1, 4 if self.tier != "thorough" else 5)
        lo = rng.randint(-3, 4)
        style = rng.random()
        vals = list(range(lo, lo + width))
        anno = " :: output_var" if output else ""
        if style < 0.55:
            self.decls.append("var %d..%d: %s%s;" % (lo, lo + width - 1, name, anno))
        elif style < 0.8:
            if width >= 3 and rng.random() < 0.6:
                vals.remove(rng.choice(vals[1:-1]))
            self.decls.append("var {%s}: %s%s;" % (", ".join(map(str, vals)), name, anno))
        elif style < 0.9:
            v = rng.choice(vals)
            vals = [v]
            if rng.random() < 0.5:
                self.decls.append("var {%d}: %s%s;" % (v, name, anno))       # singleton set
            else:
                self.decls.append("var %d..%d: %s%s;" % (v, v, name, anno))
        else:
            # `var int: x = c` style: fixed by assignment - to a literal or to a parameter, declared
            # with a range or with a set
            v = rng.choice(vals)
            rhs = str(v)
            if rng.random() < 0.4:
                rhs = self.fresh("P")
                self.decls.insert(0, "int: %s = %d;" % (rhs, v))
            if rng.random() < 0.4:
                self.decls.append("var {%s}: %s%s = %s;" % (", ".join(map(str, vals)), name, anno, rhs))
            else:
                self.decls.append("var %d..%d: %s%s = %s;" % (lo, lo + width - 1, name, anno, rhs))
            vals = [v]
        self.doms.append(vals)
        idx = len(self.doms)
        self.names[name] = idx
        self.isbool[name] = False
        self.space *= len(vals)
        if output:
            self.out.append((name, [idx], False, False))
        return name

    def new_bool(self, output=True):
        name = self.fresh("b")
        anno = " :: output_var" if output else ""
        self.decls.append("var bool: %s%s;" % (name, anno))
        self.doms.append([0, 1])
        idx = len(self.doms)
        self.names[name] = idx
        self.isbool[name] = True
        self.space *= 2
        if output:
            self.out.append((name, [idx], False, True))
        return name

    def alias(self, target):
        """`var lo..hi: y = x;` / `var {..}: y = x;` : y is another name of x (the declared range or
        set contains the domain of x, or - a fifth of the time - restricts it)"""
        rng = self.rng
        name = self.fresh("y")
        idx = self.names[target]
        vals = self.doms[idx - 1]
        style = rng.random()
        if style < 0.5 or not vals:
            lo, hi = (min(vals) - 1, max(vals) + 1) if vals else (0, 1)
            self.decls.append("var %d..%d: %s :: output_var = %s;" % (lo, hi, name, target))
        elif style < 0.8:
            sup = sorted(set(vals) | {min(vals) - 2, max(vals) + 2})
            self.decls.append("var {%s}: %s :: output_var = %s;" % (", ".join(map(str, sup)), name, target))
        else:
            # the alias is declared over fewer values: both names are restricted to the intersection
            keep = [v for v in vals if rng.random() < 0.6] or vals[:1]
            decl = sorted(set(keep) | {max(vals) + 3})
            if rng.random() < 0.5:
                self.decls.append("var {%s}: %s :: output_var = %s;" % (", ".join(map(str, decl)), name, target))
            else:
                keep = [v for v in vals if min(keep) <= v <= max(keep)]
                self.decls.append("var %d..%d: %s :: output_var = %s;" % (min(keep), max(keep), name, target))
            self.doms[idx - 1] = keep
        self.names[name] = self.names[target]
        self.isbool[name] = False
        self.out.append((name, [self.names[target]], False, False))
        return name

    def ints(self):
        return [n for n in self.names if not self.isbool[n]]

    def bools(self):
        return [n for n in self.names if self.isbool[n]]

    def view(self, name):
        return {"v": self.names[name], "s": 1, "o": 0}

    def term(self, t):
        """an argument that is a variable name or an integer constant -> (fzn text, TLA view)"""
        if isinstance(t, int):
            return str(t), const(t)
        return t, self.view(t)

    def some_int_arg(self, allow_const=True):
        rng = self.rng
        if allow_const and rng.random() < 0.2:
            return rng.randint(-2, 4)
        return rng.choice(self.ints())

    def bool_lit(self, name):
        return {"v": self.names[name], "s": 1, "o": 0}

    def neg_lit(self, name):
        return {"v": self.names[name], "s": -1, "o": 1}

    # ------------------------------------------------------------ constraints
    def add(self, text, rec):
        self.ctext.append("constraint %s;" % text)
        self.cons.append(rec)

    def lin(self):
        rng = self.rng
        k = rng.randint(1, 3)
        ws = [rng.choice([-2, -1, 1, 1, 2, 3]) for _ in range(k)]
        xs = [rng.choice(self.ints()) for _ in range(k)]
        # a right-hand side near a reachable value
        val = sum(w * rng.choice(self.doms[self.names[x] - 1]) for w, x in zip(ws, xs))
        rhs = val + rng.randint(-1, 1)
        terms = [{"v": self.names[x], "s": w, "o": 0} for w, x in zip(ws, xs)]
        return ws, xs, rhs, terms

    def random_constraint(self):
        rng = self.rng
        kinds = ["int_lin_le", "int_lin_eq", "int_lin_ne", "int_lin_le_reif", "int_lin_eq_reif",
                 "int_lin_ne_reif", "int_le", "int_lt", "int_eq", "int_ne", "int_le_reif", "int_lt_reif",
                 "int_eq_reif", "int_ne_reif", "int_plus", "int_times", "int_div", "int_abs", "int_max",
                 "int_min", "array_int_maximum", "array_int_minimum", "array_int_element",
                 "array_var_int_element", "pumpkin_all_different", "bool_clause", "array_bool_and",
                 "array_bool_or", "bool2int", "bool_lin_eq", "bool_lin_le", "bool_and", "bool_eq",
                 "bool_eq_reif", "bool_not", "pumpkin_bool_xor", "pumpkin_bool_xor_reif", "set_in",
                 "set_in_reif", "pumpkin_cumulative", "array_bool_element", "array_var_bool_element"]
        k = rng.choice(kinds)
        need_bool = k.endswith("_reif") or k.startswith("bool") or k.startswith("array_bool") or \
            k in ("pumpkin_bool_xor", "array_var_bool_element")
        if need_bool:
            while len(self.bools()) < 2 and self.space * 2 <= 4000:
                self.new_bool()
            if len(self.bools()) < 2:
                return
        arr = lambda xs: "[" + ", ".join(xs) + "]"
        if k.startswith("int_lin_"):
            ws, xs, rhs, terms = self.lin()
            base = {"int_lin_le": "lin_le", "int_lin_eq": "lin_eq", "int_lin_ne": "lin_ne"}[k[:10]]
            rec = {"k": base, "terms": terms, "rhs": rhs}
            if k.endswith("_reif"):
                r = rng.choice(self.bools())
                self.add("%s(%s, %s, %d, %s)" % (k, arr(map(str, ws)), arr(xs), rhs, r),
                         {"k": "reif", "r": self.bool_lit(r), "c": rec})
            else:
                self.add("%s(%s, %s, %d)" % (k, arr(map(str, ws)), arr(xs), rhs), rec)
        elif k in ("int_le", "int_lt", "int_eq", "int_ne", "int_le_reif", "int_lt_reif", "int_eq_reif",
                   "int_ne_reif"):
            a, b = self.some_int_arg(), self.some_int_arg()
            if isinstance(a, int) and isinstance(b, int):
                b = rng.choice(self.ints())
            (ta, va), (tb, vb) = self.term(a), self.term(b)
            base = {"int_le": "bin_le", "int_lt": "bin_lt", "int_eq": "bin_eq", "int_ne": "bin_ne"}[k[:6]]
            rec = {"k": base, "a": va, "b": vb}
            if k.endswith("_reif"):
                r = rng.choice(self.bools())
                self.add("%s(%s, %s, %s)" % (k, ta, tb, r), {"k": "reif", "r": self.bool_lit(r), "c": rec})
            else:
                self.add("%s(%s, %s)" % (k, ta, tb), rec)
        elif k in ("int_plus", "int_times", "int_max", "int_min"):
            a, b, c = (rng.choice(self.ints()) for _ in range(3))
            va, vb, vc = self.view(a), self.view(b), self.view(c)
            rec = {"int_plus": {"k": "plus", "a": va, "b": vb, "c": vc},
                   "int_times": {"k": "times", "a": va, "b": vb, "c": vc},
                   "int_max": {"k": "max", "xs": [va, vb], "y": vc},
                   "int_min": {"k": "min", "xs": [va, vb], "y": vc}}[k]
            self.add("%s(%s, %s, %s)" % (k, a, b, c), rec)
        elif k == "int_div":
            a, c = rng.choice(self.ints()), rng.choice(self.ints())
            cands = [n for n in self.ints() if 0 not in self.doms[self.names[n] - 1]]
            if not cands:
                return
            b = rng.choice(cands)
            self.add("int_div(%s, %s, %s)" % (a, b, c),
                     {"k": "div", "a": self.view(a), "b": self.view(b), "c": self.view(c)})
        elif k == "int_abs":
            a, b = rng.choice(self.ints()), rng.choice(self.ints())
            self.add("int_abs(%s, %s)" % (a, b), {"k": "abs", "a": self.view(a), "b": self.view(b)})
        elif k in ("array_int_maximum", "array_int_minimum"):
            m = rng.choice(self.ints())
            xs = [rng.choice(self.ints()) for _ in range(rng.randint(1, 3))]
            self.add("%s(%s, %s)" % (k, m, arr(xs)),
                     {"k": "max" if k.endswith("maximum") else "min", "xs": [self.view(x) for x in xs],
                      "y": self.view(m)})
        elif k in ("array_int_element", "array_var_int_element"):
            idx = rng.choice(self.ints())
            y = rng.choice(self.ints())
            nels = rng.randint(1, 3)
            if k == "array_int_element":
                els = [rng.randint(-2, 4) for _ in range(nels)]
            else:
                els = [self.some_int_arg() for _ in range(nels)]
            texts, views = zip(*[self.term(e) for e in els])
            self.add("%s(%s, %s, %s)" % (k, idx, arr(texts), y),
                     {"k": "element", "idx": {"v": self.names[idx], "s": 1, "o": -1}, "xs": list(views),
                      "y": self.view(y)})
        elif k == "pumpkin_all_different":
            xs = rng.sample(self.ints(), min(len(self.ints()), rng.randint(2, 3)))
            if len(xs) < 2:
                return
            self.add("pumpkin_all_different(%s)" % arr(xs), {"k": "alldiff", "xs": [self.view(x) for x in xs]})
        elif k == "bool_clause":
            pos = [rng.choice(self.bools()) for _ in range(rng.randint(0, 2))]
            neg = [rng.choice(self.bools()) for _ in range(rng.randint(0, 2))]
            if not pos and not neg:
                pos = [rng.choice(self.bools())]
            self.add("bool_clause(%s, %s)" % (arr(pos), arr(neg)),
                     {"k": "lit_clause", "ls": [self.bool_lit(p) for p in pos] + [self.neg_lit(q) for q in neg]})
        elif k in ("array_bool_and", "array_bool_or"):
            xs = [rng.choice(self.bools()) for _ in range(rng.randint(1, 3))]
            r = rng.choice(self.bools())
            inner = {"k": "lit_conj" if k.endswith("and") else "lit_clause", "ls": [self.bool_lit(x) for x in xs]}
            self.add("%s(%s, %s)" % (k, arr(xs), r), {"k": "reif", "r": self.bool_lit(r), "c": inner})
        elif k == "bool2int":
            b, i = rng.choice(self.bools()), rng.choice(self.ints())
            self.add("bool2int(%s, %s)" % (b, i), {"k": "bin_eq", "a": self.bool_lit(b), "b": self.view(i)})
        elif k == "bool_lin_eq":
            n = rng.randint(1, 3)
            ws = [rng.choice([-2, -1, 1, 2, 3]) for _ in range(n)]
            bs = [rng.choice(self.bools()) for _ in range(n)]
            y = rng.choice(self.ints())
            self.add("bool_lin_eq(%s, %s, %s)" % (arr(map(str, ws)), arr(bs), y),
                     {"k": "bool_lin_eq", "ws": ws, "bs": [self.bool_lit(b) for b in bs], "y": self.view(y)})
        elif k == "bool_lin_le":
            n = rng.randint(1, 3)
            ws = [rng.choice([-2, -1, 1, 2, 3]) for _ in range(n)]
            bs = [rng.choice(self.bools()) for _ in range(n)]
            rhs = rng.randint(-1, 3)
            self.add("bool_lin_le(%s, %s, %d)" % (arr(map(str, ws)), arr(bs), rhs),
                     {"k": "bool_lin_le", "ws": ws, "bs": [self.bool_lit(b) for b in bs], "rhs": rhs})
        elif k == "bool_and":
            a, b, r = (rng.choice(self.bools()) for _ in range(3))
            self.add("bool_and(%s, %s, %s)" % (a, b, r),
                     {"k": "reif", "r": self.bool_lit(r), "c": {"k": "lit_conj", "ls": [self.bool_lit(a), self.bool_lit(b)]}})
        elif k == "bool_eq":
            a, b = rng.choice(self.bools()), rng.choice(self.bools())
            self.add("bool_eq(%s, %s)" % (a, b), {"k": "bin_eq", "a": self.bool_lit(a), "b": self.bool_lit(b)})
        elif k == "bool_eq_reif":
            a, b, r = (rng.choice(self.bools()) for _ in range(3))
            self.add("bool_eq_reif(%s, %s, %s)" % (a, b, r),
                     {"k": "reif", "r": self.bool_lit(r), "c": {"k": "bin_eq", "a": self.bool_lit(a), "b": self.bool_lit(b)}})
        elif k == "bool_not":
            a, b = rng.choice(self.bools()), rng.choice(self.bools())
            self.add("bool_not(%s, %s)" % (a, b), {"k": "bin_ne", "a": self.bool_lit(a), "b": self.bool_lit(b)})
        elif k == "pumpkin_bool_xor":
            a, b = rng.choice(self.bools()), rng.choice(self.bools())
            self.add("pumpkin_bool_xor(%s, %s)" % (a, b), {"k": "bin_ne", "a": self.bool_lit(a), "b": self.bool_lit(b)})
        elif k == "pumpkin_bool_xor_reif":
            a, b, r = (rng.choice(self.bools()) for _ in range(3))
            self.add("pumpkin_bool_xor_reif(%s, %s, %s)" % (a, b, r),
                     {"k": "reif", "r": self.bool_lit(r), "c": {"k": "bin_ne", "a": self.bool_lit(a), "b": self.bool_lit(b)}})
        elif k in ("set_in", "set_in_reif"):
            x = rng.choice(self.ints())
            vals = self.doms[self.names[x] - 1]
            if rng.random() < 0.5:
                lo = rng.randint(min(vals) - 1, max(vals))
                hi = rng.randint(lo, max(vals) + 1)
                sset, stext = list(range(lo, hi + 1)), "%d..%d" % (lo, hi)
            else:
                sset = sorted(set(rng.choice(range(min(vals) - 1, max(vals) + 2)) for _ in range(rng.randint(1, 3))))
                stext = "{%s}" % ", ".join(map(str, sset))
            rec = {"k": "clause", "ps": [{"x": self.view(x), "op": "eq", "k": v} for v in sset]}
            if k == "set_in":
                self.add("set_in(%s, %s)" % (x, stext), rec)
            else:
                r = rng.choice(self.bools())
                self.add("set_in_reif(%s, %s, %s)" % (x, stext, r), {"k": "reif", "r": self.bool_lit(r), "c": rec})
        elif k == "pumpkin_cumulative":
            xs = [rng.choice(self.ints()) for _ in range(rng.randint(1, 3))]
            d = [rng.randint(0, 3) for _ in xs]
            r = [rng.randint(0, 3) for _ in xs]
            cap = rng.randint(0, 4)
            self.add("pumpkin_cumulative(%s, %s, %s, %d)" % (arr(xs), arr(map(str, d)), arr(map(str, r)), cap),
                     {"k": "cumulative", "s": [self.view(x) for x in xs], "d": d, "r": r, "cap": cap})
        elif k in ("array_bool_element", "array_var_bool_element"):
            idx = rng.choice(self.ints())
            y = rng.choice(self.bools())
            nels = rng.randint(1, 3)
            if k == "array_bool_element":
                els = [rng.choice(["true", "false"]) for _ in range(nels)]
                views = [const(1 if e == "true" else 0) for e in els]
            else:
                els = [rng.choice(self.bools()) for _ in range(nels)]
                views = [self.bool_lit(e) for e in els]
            self.add("%s(%s, %s, %s)" % (k, idx, arr(els), y),
                     {"k": "element", "idx": {"v": self.names[idx], "s": 1, "o": -1}, "xs": views,
                      "y": self.bool_lit(y)})


VARSEL = ["input_order", "first_fail", "anti_first_fail", "smallest", "largest", "max_regret"]  # occurrence, most_constrained, dom_w_deg, impact: todo!() in ast.rs, not supported
VALSEL = ["indomain", "indomain_min", "indomain_max", "indomain_median", "indomain_middle", "indomain_random",
          "indomain_split", "indomain_reverse_split", "indomain_split_random", "indomain_interval",
          "outdomain_min", "outdomain_max", "outdomain_median", "outdomain_random"]


def generate(rng, tier):
    m = Model(rng, tier)
    limit = 1500 if tier != "thorough" else 8000
    nints = rng.randint(2, 4 if tier != "thorough" else 5)
    for _ in range(nints):
        if m.space * 3 > limit:
            break
        m.new_int(output=rng.random() < 0.85)
        # (aliases are declared between the other variables as well, not only after them)
        if rng.random() < 0.2:
            m.alias(rng.choice(m.ints()))
    for _ in range(rng.randint(0, 2)):
        if m.space * 2 <= limit:
            m.new_bool(output=rng.random() < 0.85)
    # aliases: none, one, or several independent ones (also aliases of aliases)
    for _ in range(rng.choice([0, 0, 0, 0, 1, 1, 2, 3])):
        if m.ints():
            m.alias(rng.choice(m.ints()))
    # an output array over some of the variables (and constants)
    if rng.random() < 0.3 and len(m.ints()) >= 2:
        els = [rng.choice(m.ints()) for _ in range(rng.randint(2, 3))]
        name = m.fresh("arr")
        m.decls.append("array [1..%d] of var int: %s :: output_array([1..%d]) = [%s];"
                       % (len(els), name, len(els), ", ".join(els)))
        m.out.append((name, [m.names[e] for e in els], True, False))
    for _ in range(rng.randint(1, 4 if tier != "thorough" else 6)):
        m.random_constraint()
    if not m.out:
        x = m.ints()[0]
        # make sure something is printed
        m.decls = [d.replace(": %s;" % x, ": %s :: output_var;" % x) if d.endswith(": %s;" % x) else d for d in m.decls]
        if not any(" %s ::" % x in d for d in m.decls):
            pass
        m.out.append((x, [m.names[x]], False, False))
        m.decls = [re.sub(r": %s( =|;)" % re.escape(x), r": %s :: output_var\1" % x, d)
                   if ("output_var" not in d and re.search(r": %s( =|;)" % re.escape(x), d)) else d for d in m.decls]
    # the solve item
    method = rng.choice(["satisfy", "satisfy", "minimize", "maximize"])
    anno = ""
    if rng.random() < 0.5:
        names = list(m.ints())
        rng.shuffle(names)
        sub = names[:rng.randint(1, len(names))]      # may not cover all variables
        if rng.random() < 0.3:
            # a constant among the search variables (MiniZinc emits these after fixing a variable)
            sub.insert(rng.randint(0, len(sub)), str(rng.randint(-2, 6)))
        anno = " :: int_search([%s], %s, %s, complete)" % (", ".join(sub), rng.choice(VARSEL), rng.choice(VALSEL))
        bools = list(m.bools())
        if bools and rng.random() < 0.5:
            # a search over the Boolean variables as well (alone or in sequence with the integer one)
            rng.shuffle(bools)
            bsub = bools[:rng.randint(1, len(bools))]
            bs = "bool_search([%s], %s, %s, complete)" % (", ".join(bsub), rng.choice(["input_order", "first_fail"]),
                                                          rng.choice(["indomain_min", "indomain_max", "indomain_random"]))
            if rng.random() < 0.5:
                anno = " :: " + bs
            else:
                anno = " :: seq_search([%s, %s])" % (anno[4:], bs)
    obj = None
    if method == "satisfy":
        solve = "solve%s satisfy;" % anno
    else:
        obj = rng.choice(m.ints())
        solve = "solve%s %s %s;" % (anno, method, obj)
    text = "\n".join(m.decls + m.ctext + [solve]) + "\n"
    desc = {"doms": m.doms, "cons": m.cons, "out": [o[1] for o in m.out],
            "method": "satisfy" if method == "satisfy" else "optimise",
            "maximise": method == "maximize", "obj": m.names[obj] if obj else 1}
    return text, desc, m.out


def parse_output(stdout, outspec):
    """-> dict(blocks, complete, unsat, unknown, garbage). A block is a list (per output item) of value lists."""
    blocks, cur = [], {}
    complete = unsat = unknown = False
    garbage = []
    for line in stdout.splitlines():
        line = line.strip()
        if not line or line.startswith("%"):
            continue
        if line == "----------":
            block = []
            ok = True
            for name, idxs, is_array, isbool in outspec:
                if name not in cur:
                    ok = False
                    break
                block.append(cur[name])
            if ok:
                blocks.append(block)
            else:
                garbage.append("block without all outputs: %r" % cur)
            cur = {}
        elif line == "==========":
            complete = True
        elif line == "=====UNSATISFIABLE=====":
            unsat = True
        elif line == "=====UNKNOWN=====":
            unknown = True
        else:
            mm = re.match(r"^(\w+) = (.*);$", line)
            if not mm:
                garbage.append(line)
                continue
            name, val = mm.group(1), mm.group(2)
            am = re.match(r"^array\d+d\((.*), \[(.*)\]\)$", val)
            def tov(s):
                s = s.strip()
                return 1 if s == "true" else 0 if s == "false" else int(s)
            try:
                if am:
                    cur[name] = [tov(x) for x in am.group(2).split(",") if x.strip()]
                else:
                    cur[name] = [tov(val)]
            except ValueError:
                garbage.append(line)
    return {"blocks": blocks, "complete": complete, "unsat": unsat, "unknown": unknown, "garbage": garbage}
