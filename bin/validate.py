#!/usr/bin/env python3
"""validates MANIFEST.json and every evidence file against the schemas (tooling venv has jsonschema)"""
import json, glob, sys
import jsonschema
ok = True
try:
    jsonschema.validate(json.load(open('/verif/MANIFEST.json')), json.load(open('/root/.vp/MANIFEST.schema.json')))
    print("MANIFEST ok")
except Exception as e:
    ok = False; print("MANIFEST INVALID", str(e)[:500])
sch = json.load(open('/root/.vp/EVIDENCE.schema.json'))
for p in sorted(glob.glob('/verif/evidence/*.json')):
    try:
        jsonschema.validate(json.load(open(p)), sch); print("ok", p)
    except Exception as e:
        ok = False; print("INVALID", p, str(e)[:300])
sys.exit(0 if ok else 1)
