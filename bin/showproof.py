#!/usr/bin/env python3
"""debug helper: print the proof-family scenario <id> of a recorded trace in readable form
usage: showproof.py <trace.ndjson> <id> [maxlines]"""
import sys, json
ev = [json.loads(l) for l in open(sys.argv[1])]
fid = int(sys.argv[2])
mx = int(sys.argv[3]) if len(sys.argv) > 3 else 80
on = False
n = 0
def pp(p):
    return "[x%d %s %d]" % (p['x']['v'], p['op'], p['k'])
for e in ev:
    if e['e'] == 'Reset':
        on = (e['id'] == fid)
    if not on:
        continue
    n += 1
    if n > mx:
        break
    k = e['e']
    if k == 'Reset': print('RESET', e['opts']['proof'], 'minimise', e['opts']['minimise'])
    elif k == 'NewVar': print(' var', e['v'], e['vals'])
    elif k == 'Post': print(' post', json.dumps(e['c']), 'tag', e['tag'])
    elif k == 'PostEnd': print('   ->', e['ok'])
    elif k == 'PInf': print(' i', e['id'], [pp(p) for p in e['prem']], '->', pp(e['concl']) if e['has'] else 'false', 'tag', e['tag'])
    elif k == 'PNogood': print(' n', e['id'], [pp(p) for p in e['lits']], e['hints'])
    elif k == 'PConcl': print(' c', 'UNSAT' if e['unsat'] else pp(e['p']))
    elif k == 'PDel': print(' d', e['id'])
    else:
        d = dict(e); d.pop('e'); print(' ', k, json.dumps(d)[:220])
