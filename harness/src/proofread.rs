//! A tolerant tokenizer of the `.drcp` / `.lits` files the library wrote (deliberately NOT the
//! library's own reader, which is the subject of property C19): every step becomes one trace
//! event with the atomic-constraint codes resolved to predicates over the harness' variables
//! (`x<index>`).
use std::collections::HashMap;
use std::path::Path;

use serde_json::json;
use serde_json::Value;

#[derive(Clone, Copy)]
struct Atom {
    v: u32,
    op: &'static str,
    k: i64,
}

fn neg(a: Atom) -> Atom {
    match a.op {
        "le" => Atom { v: a.v, op: "ge", k: a.k + 1 },
        "ge" => Atom { v: a.v, op: "le", k: a.k - 1 },
        "eq" => Atom { v: a.v, op: "ne", k: a.k },
        _ => Atom { v: a.v, op: "eq", k: a.k },
    }
}

fn pj(a: Atom) -> Value {
    json!({"x":{"v":a.v,"s":1,"o":0},"op":a.op,"k":a.k})
}

fn parse_lits(text: &str) -> Result<HashMap<i64, Atom>, String> {
    let mut map = HashMap::new();
    for line in text.lines() {
        let line = line.trim();
        if line.is_empty() {
            continue;
        }
        let (code, rest) = line.split_once(' ').ok_or_else(|| format!("lits line: {line}"))?;
        let code: i64 = code.parse().map_err(|_| format!("lits code: {line}"))?;
        let inner = rest
            .trim()
            .strip_prefix('[')
            .and_then(|r| r.strip_suffix(']'))
            .ok_or_else(|| format!("lits atom: {line}"))?;
        let parts: Vec<&str> = inner.split_whitespace().collect();
        if parts.len() != 3 {
            return Err(format!("lits atom: {line}"));
        }
        let v: u32 = parts[0]
            .strip_prefix('x')
            .and_then(|n| n.parse().ok())
            .ok_or_else(|| format!("lits variable name: {line}"))?;
        let op = match parts[1] {
            "<=" => "le",
            ">=" => "ge",
            "==" => "eq",
            "!=" => "ne",
            _ => return Err(format!("lits comparison: {line}")),
        };
        let k: i64 = parts[2].parse().map_err(|_| format!("lits value: {line}"))?;
        if map.insert(code, Atom { v, op, k }).is_some() {
            return Err(format!("lits code defined twice: {line}"));
        }
    }
    Ok(map)
}

pub fn emit_proof_events(path: &Path, out: &mut dyn FnMut(Value)) {
    let drcp = std::fs::read_to_string(path).unwrap_or_default();
    let lits = match std::fs::read_to_string(path.with_extension("lits")) {
        Ok(t) => t,
        Err(_) => {
            // the definitions are written when the proof is concluded; a proof that was never
            // concluded has no definition file
            out(json!({"e":"PEnd","steps":0,"definitions":false}));
            return;
        }
    };
    let map = match parse_lits(&lits) {
        Ok(m) => m,
        Err(what) => {
            out(json!({"e":"PMalformed","what":what}));
            out(json!({"e":"PEnd","steps":0}));
            return;
        }
    };
    let dummy = pj(Atom { v: 1, op: "ge", k: 1 });
    let mut steps = 0u64;
    'lines: for line in drcp.lines() {
        let toks: Vec<&str> = line.split_whitespace().collect();
        if toks.is_empty() {
            continue;
        }
        steps += 1;
        let mut resolve = |tok: &str| -> Option<Result<Value, i64>> {
            let code: i64 = tok.parse().ok()?;
            match map.get(&code.abs()) {
                Some(a) => Some(Ok(pj(if code < 0 { neg(*a) } else { *a }))),
                None => Some(Err(code)),
            }
        };
        match toks[0] {
            "i" | "n" => {
                let Some(id) = toks.get(1).and_then(|t| t.parse::<u64>().ok()) else {
                    out(json!({"e":"PMalformed","what":line}));
                    continue;
                };
                let mut first: Vec<Value> = vec![];
                let mut second: Vec<&str> = vec![];
                let mut tag = 0u64;
                let mut after_zero = false;
                for t in &toks[2..] {
                    if let Some(c) = t.strip_prefix("c:") {
                        tag = c.parse().unwrap_or(0);
                    } else if t.starts_with("l:") {
                    } else if *t == "0" && !after_zero {
                        after_zero = true;
                    } else if after_zero {
                        second.push(t);
                    } else {
                        match resolve(t) {
                            Some(Ok(p)) => first.push(p),
                            Some(Err(code)) => {
                                out(json!({"e":"PUnknownCode","code":code,"line":line}));
                                continue 'lines;
                            }
                            None => {
                                out(json!({"e":"PMalformed","what":line}));
                                continue 'lines;
                            }
                        }
                    }
                }
                if toks[0] == "i" {
                    let (has, concl) = match second.first() {
                        None => (false, dummy.clone()),
                        Some(t) => match resolve(t) {
                            Some(Ok(p)) => (true, p),
                            Some(Err(code)) => {
                                out(json!({"e":"PUnknownCode","code":code,"line":line}));
                                continue;
                            }
                            None => {
                                out(json!({"e":"PMalformed","what":line}));
                                continue;
                            }
                        },
                    };
                    out(json!({"e":"PInf","id":id,"prem":first,"has":has,"concl":concl,"tag":tag}));
                } else {
                    let hints: Vec<u64> = second.iter().filter_map(|t| t.parse().ok()).collect();
                    out(json!({"e":"PNogood","id":id,"lits":first,"hints":hints}));
                }
            }
            "d" => match toks.get(1).and_then(|t| t.parse::<u64>().ok()) {
                Some(id) => out(json!({"e":"PDel","id":id})),
                None => out(json!({"e":"PMalformed","what":line})),
            },
            "c" => match toks.get(1) {
                Some(&"UNSAT") => out(json!({"e":"PConcl","unsat":true,"p":dummy})),
                Some(t) => match resolve(t) {
                    Some(Ok(p)) => out(json!({"e":"PConcl","unsat":false,"p":p})),
                    Some(Err(code)) => out(json!({"e":"PUnknownCode","code":code,"line":line})),
                    None => out(json!({"e":"PMalformed","what":line})),
                },
                None => out(json!({"e":"PMalformed","what":line})),
            },
            _ => out(json!({"e":"PMalformed","what":line})),
        }
    }
    out(json!({"e":"PEnd","steps":steps}));
}
