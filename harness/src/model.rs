//! The model description shared with the TLA+ specification (`spec/Constraints.tla`).
//!
//! Indices are the TLA+ ones: variable `v` is the solver's domain id `v - 1`, so variable 1 is the
//! solver's dummy variable (fixed to 1) and the k-th variable created by the user is `k + 1`.
use std::num::NonZero;

use pumpkin_solver::constraints;
use pumpkin_solver::constraints::Constraint;
use pumpkin_solver::constraints::NegatableConstraint;
use pumpkin_solver::options::CumulativeExplanationType;
use pumpkin_solver::options::CumulativeOptions;
use pumpkin_solver::options::CumulativePropagationMethod;
use pumpkin_solver::predicates::Predicate;
use pumpkin_solver::predicates::PredicateConstructor;
use pumpkin_solver::variables::AffineView;
use pumpkin_solver::variables::DomainId;
use pumpkin_solver::variables::Literal;
use pumpkin_solver::variables::TransformableVariable;
use pumpkin_solver::ConstraintOperationError;
use pumpkin_solver::Solver;
use serde::Deserialize;
use serde::Serialize;

#[derive(Clone, Copy, Debug, Serialize, Deserialize, PartialEq, Eq, Hash)]
pub struct View {
    pub v: u32,
    pub s: i32,
    pub o: i32,
}

impl View {
    pub fn var(v: u32) -> View {
        View { v, s: 1, o: 0 }
    }
    pub fn is_plain(&self) -> bool {
        self.s == 1 && self.o == 0
    }
    pub fn domain(&self) -> DomainId {
        DomainId::new(self.v - 1)
    }
    pub fn affine(&self) -> AffineView<DomainId> {
        self.domain().scaled(self.s).offset(self.o)
    }
    pub fn eval(&self, a: &[i64]) -> i64 {
        self.s as i64 * a[self.v as usize - 1] + self.o as i64
    }
    pub fn neg_lit(&self) -> View {
        // the negation of a 0/1 view
        View {
            v: self.v,
            s: -self.s,
            o: 1 - self.o,
        }
    }
}

#[derive(Clone, Copy, Debug, Serialize, Deserialize, PartialEq, Eq, Hash)]
pub struct Pred {
    pub x: View,
    pub op: Op,
    pub k: i32,
}

#[derive(Clone, Copy, Debug, Serialize, Deserialize, PartialEq, Eq, Hash)]
#[serde(rename_all = "lowercase")]
pub enum Op {
    Ge,
    Le,
    Ne,
    Eq,
}

impl Pred {
    pub fn eval(&self, a: &[i64]) -> bool {
        let y = self.x.eval(a);
        let k = self.k as i64;
        match self.op {
            Op::Ge => y >= k,
            Op::Le => y <= k,
            Op::Ne => y != k,
            Op::Eq => y == k,
        }
    }
    pub fn to_predicate(&self) -> Predicate {
        if self.x.is_plain() {
            let d = self.x.domain();
            match self.op {
                Op::Ge => d.lower_bound_predicate(self.k),
                Op::Le => d.upper_bound_predicate(self.k),
                Op::Ne => d.disequality_predicate(self.k),
                Op::Eq => d.equality_predicate(self.k),
            }
        } else {
            let d = self.x.affine();
            match self.op {
                Op::Ge => d.lower_bound_predicate(self.k),
                Op::Le => d.upper_bound_predicate(self.k),
                Op::Ne => d.disequality_predicate(self.k),
                Op::Eq => d.equality_predicate(self.k),
            }
        }
    }
    pub fn negated(&self) -> Pred {
        match self.op {
            Op::Ge => Pred {
                x: self.x,
                op: Op::Le,
                k: self.k - 1,
            },
            Op::Le => Pred {
                x: self.x,
                op: Op::Ge,
                k: self.k + 1,
            },
            Op::Ne => Pred {
                x: self.x,
                op: Op::Eq,
                k: self.k,
            },
            Op::Eq => Pred {
                x: self.x,
                op: Op::Ne,
                k: self.k,
            },
        }
    }
}

#[derive(Clone, Copy, Debug, Serialize, Deserialize, PartialEq, Eq)]
pub struct CumOpts {
    /// 0..5 in the order of `CumulativePropagationMethod`
    pub method: u8,
    /// 0 naive, 1 big-step, 2 pointwise
    pub expl: u8,
    pub holes: bool,
    pub seq: bool,
    pub incr: bool,
}

impl CumOpts {
    pub fn to_options(&self) -> CumulativeOptions {
        let method = match self.method {
            0 => CumulativePropagationMethod::TimeTablePerPoint,
            1 => CumulativePropagationMethod::TimeTablePerPointIncremental,
            2 => CumulativePropagationMethod::TimeTablePerPointIncrementalSynchronised,
            3 => CumulativePropagationMethod::TimeTableOverInterval,
            4 => CumulativePropagationMethod::TimeTableOverIntervalIncremental,
            _ => CumulativePropagationMethod::TimeTableOverIntervalIncrementalSynchronised,
        };
        let expl = match self.expl {
            0 => CumulativeExplanationType::Naive,
            1 => CumulativeExplanationType::BigStep,
            _ => CumulativeExplanationType::Pointwise,
        };
        CumulativeOptions::new(self.holes, expl, self.seq, method, self.incr)
    }
    pub fn all() -> Vec<CumOpts> {
        let mut v = vec![];
        for method in 0..6 {
            for expl in 0..3 {
                for holes in [false, true] {
                    for seq in [false, true] {
                        for incr in [false, true] {
                            v.push(CumOpts {
                                method,
                                expl,
                                holes,
                                seq,
                                incr,
                            });
                        }
                    }
                }
            }
        }
        v
    }
}

/// A constraint; `k` is the kind the specification dispatches on.
#[derive(Clone, Debug, Serialize, Deserialize, PartialEq)]
#[serde(tag = "k", rename_all = "snake_case")]
pub enum Cons {
    LinLe { terms: Vec<View>, rhs: i32 },
    LinEq { terms: Vec<View>, rhs: i32 },
    LinNe { terms: Vec<View>, rhs: i32 },
    BinLe { a: View, b: View },
    BinLt { a: View, b: View },
    BinEq { a: View, b: View },
    BinNe { a: View, b: View },
    Plus { a: View, b: View, c: View },
    Times { a: View, b: View, c: View },
    Div { a: View, b: View, c: View },
    Abs { a: View, b: View },
    Max { xs: Vec<View>, y: View },
    Min { xs: Vec<View>, y: View },
    Element { idx: View, xs: Vec<View>, y: View },
    Alldiff { xs: Vec<View> },
    Cumulative {
        s: Vec<View>,
        d: Vec<i32>,
        r: Vec<i32>,
        cap: i32,
        opts: CumOpts,
    },
    BoolLinLe { ws: Vec<i32>, bs: Vec<View>, rhs: i32 },
    BoolLinEq { ws: Vec<i32>, bs: Vec<View>, y: View },
    /// `Solver::add_clause` over arbitrary predicates
    Clause { ps: Vec<Pred> },
    /// `constraints::clause` / `constraints::conjunction` over literals (0/1 views)
    LitClause { ls: Vec<View> },
    LitConj { ls: Vec<View> },
    /// `c` posted with `.implied_by(r)` / `.reify(r)`; `negation()` of `c` posted
    Imp { r: View, c: Box<Cons> },
    Reif { r: View, c: Box<Cons> },
    Neg { c: Box<Cons> },
    /// `l` was created by `new_literal_for_predicate(p)`
    LitPred { l: View, p: Pred },
}

impl Cons {
    pub fn kind(&self) -> &'static str {
        match self {
            Cons::LinLe { .. } => "lin_le",
            Cons::LinEq { .. } => "lin_eq",
            Cons::LinNe { .. } => "lin_ne",
            Cons::BinLe { .. } => "bin_le",
            Cons::BinLt { .. } => "bin_lt",
            Cons::BinEq { .. } => "bin_eq",
            Cons::BinNe { .. } => "bin_ne",
            Cons::Plus { .. } => "plus",
            Cons::Times { .. } => "times",
            Cons::Div { .. } => "div",
            Cons::Abs { .. } => "abs",
            Cons::Max { .. } => "max",
            Cons::Min { .. } => "min",
            Cons::Element { .. } => "element",
            Cons::Alldiff { .. } => "alldiff",
            Cons::Cumulative { .. } => "cumulative",
            Cons::BoolLinLe { .. } => "bool_lin_le",
            Cons::BoolLinEq { .. } => "bool_lin_eq",
            Cons::Clause { .. } => "clause",
            Cons::LitClause { .. } => "lit_clause",
            Cons::LitConj { .. } => "lit_conj",
            Cons::Imp { .. } => "imp",
            Cons::Reif { .. } => "reif",
            Cons::Neg { .. } => "neg",
            Cons::LitPred { .. } => "lit_pred",
        }
    }

    pub fn is_negatable(&self) -> bool {
        matches!(
            self,
            Cons::LinLe { .. }
                | Cons::LinEq { .. }
                | Cons::LinNe { .. }
                | Cons::BinLe { .. }
                | Cons::BinLt { .. }
                | Cons::BinEq { .. }
                | Cons::BinNe { .. }
                | Cons::LitClause { .. }
                | Cons::LitConj { .. }
        )
    }

    /// The variables mentioned (TLA+ indices).
    pub fn scope(&self) -> Vec<u32> {
        let mut out = vec![];
        let mut add = |x: &View| {
            if !out.contains(&x.v) {
                out.push(x.v)
            }
        };
        match self {
            Cons::LinLe { terms, .. } | Cons::LinEq { terms, .. } | Cons::LinNe { terms, .. } => {
                terms.iter().for_each(&mut add)
            }
            Cons::BinLe { a, b }
            | Cons::BinLt { a, b }
            | Cons::BinEq { a, b }
            | Cons::BinNe { a, b }
            | Cons::Abs { a, b } => {
                add(a);
                add(b)
            }
            Cons::Plus { a, b, c } | Cons::Times { a, b, c } | Cons::Div { a, b, c } => {
                add(a);
                add(b);
                add(c)
            }
            Cons::Max { xs, y } | Cons::Min { xs, y } => {
                xs.iter().for_each(&mut add);
                add(y)
            }
            Cons::Element { idx, xs, y } => {
                add(idx);
                xs.iter().for_each(&mut add);
                add(y)
            }
            Cons::Alldiff { xs } => xs.iter().for_each(&mut add),
            Cons::Cumulative { s, .. } => s.iter().for_each(&mut add),
            Cons::BoolLinLe { bs, .. } => bs.iter().for_each(&mut add),
            Cons::BoolLinEq { bs, y, .. } => {
                bs.iter().for_each(&mut add);
                add(y)
            }
            Cons::Clause { ps } => ps.iter().for_each(|p| add(&p.x)),
            Cons::LitClause { ls } | Cons::LitConj { ls } => ls.iter().for_each(&mut add),
            Cons::Imp { r, c } | Cons::Reif { r, c } => {
                add(r);
                for v in c.scope() {
                    add(&View::var(v))
                }
            }
            Cons::Neg { c } => {
                for v in c.scope() {
                    add(&View::var(v))
                }
            }
            Cons::LitPred { l, p } => {
                add(l);
                add(&p.x)
            }
        }
        out
    }

    /// Evaluation used ONLY to steer generators (never as an oracle: the oracle is
    /// `Holds` in `spec/Constraints.tla`).
    pub fn holds(&self, a: &[i64]) -> bool {
        fn sum(ts: &[View], a: &[i64]) -> i64 {
            ts.iter().map(|t| t.eval(a)).sum()
        }
        match self {
            Cons::LinLe { terms, rhs } => sum(terms, a) <= *rhs as i64,
            Cons::LinEq { terms, rhs } => sum(terms, a) == *rhs as i64,
            Cons::LinNe { terms, rhs } => sum(terms, a) != *rhs as i64,
            Cons::BinLe { a: x, b } => x.eval(a) <= b.eval(a),
            Cons::BinLt { a: x, b } => x.eval(a) < b.eval(a),
            Cons::BinEq { a: x, b } => x.eval(a) == b.eval(a),
            Cons::BinNe { a: x, b } => x.eval(a) != b.eval(a),
            Cons::Plus { a: x, b, c } => x.eval(a) + b.eval(a) == c.eval(a),
            Cons::Times { a: x, b, c } => x.eval(a) * b.eval(a) == c.eval(a),
            Cons::Div { a: x, b, c } => {
                let d = b.eval(a);
                d != 0 && {
                    let n = x.eval(a);
                    let q = n.abs() / d.abs();
                    let q = if (n < 0) != (d < 0) { -q } else { q };
                    q == c.eval(a)
                }
            }
            Cons::Abs { a: x, b } => x.eval(a).abs() == b.eval(a),
            Cons::Max { xs, y } => xs.iter().map(|x| x.eval(a)).max() == Some(y.eval(a)),
            Cons::Min { xs, y } => xs.iter().map(|x| x.eval(a)).min() == Some(y.eval(a)),
            Cons::Element { idx, xs, y } => {
                let i = idx.eval(a);
                i >= 0 && (i as usize) < xs.len() && xs[i as usize].eval(a) == y.eval(a)
            }
            Cons::Alldiff { xs } => {
                for i in 0..xs.len() {
                    for j in i + 1..xs.len() {
                        if xs[i].eval(a) == xs[j].eval(a) {
                            return false;
                        }
                    }
                }
                true
            }
            Cons::Cumulative { s, d, r, cap, .. } => {
                let starts: Vec<i64> = s.iter().map(|x| x.eval(a)).collect();
                for t in -40..40i64 {
                    let mut u = 0i64;
                    for i in 0..s.len() {
                        if starts[i] <= t && t < starts[i] + d[i] as i64 {
                            u += r[i] as i64;
                        }
                    }
                    if u > *cap as i64 {
                        return false;
                    }
                }
                true
            }
            Cons::BoolLinLe { ws, bs, rhs } => {
                ws.iter()
                    .zip(bs)
                    .map(|(w, b)| *w as i64 * b.eval(a))
                    .sum::<i64>()
                    <= *rhs as i64
            }
            Cons::BoolLinEq { ws, bs, y } => {
                ws.iter()
                    .zip(bs)
                    .map(|(w, b)| *w as i64 * b.eval(a))
                    .sum::<i64>()
                    == y.eval(a)
            }
            Cons::Clause { ps } => ps.iter().any(|p| p.eval(a)),
            Cons::LitClause { ls } => ls.iter().any(|l| l.eval(a) >= 1),
            Cons::LitConj { ls } => ls.iter().all(|l| l.eval(a) >= 1),
            Cons::Imp { r, c } => r.eval(a) < 1 || c.holds(a),
            Cons::Reif { r, c } => (r.eval(a) >= 1) == c.holds(a),
            Cons::Neg { c } => !c.holds(a),
            Cons::LitPred { l, p } => (l.eval(a) >= 1) == p.eval(a),
        }
    }
}

/// What the harness knows about the variables of the solver under test.
#[derive(Default, Debug, Clone)]
pub struct Ctx {
    /// `lits[v]` is the positive literal of variable `v` if it was created as a literal
    pub lits: std::collections::HashMap<u32, Literal>,
}

impl Ctx {
    pub fn literal(&self, l: &View) -> Literal {
        let lit = *self
            .lits
            .get(&l.v)
            .unwrap_or_else(|| panic!("harness: variable {} is not a literal", l.v));
        if l.s == 1 && l.o == 0 {
            lit
        } else if l.s == -1 && l.o == 1 {
            !lit
        } else {
            panic!("harness: {l:?} is not a literal view")
        }
    }
}

#[derive(Clone, Copy, Debug)]
pub enum Mode {
    Post,
    ImpliedBy(Literal),
    Reify(Literal),
    Negated,
    NegatedImpliedBy(Literal),
}

fn finish<C: Constraint>(
    solver: &mut Solver,
    c: C,
    mode: Mode,
    tag: Option<NonZero<u32>>,
) -> Result<(), ConstraintOperationError> {
    let poster = solver.add_constraint(c);
    let poster = match tag {
        Some(t) => poster.with_tag(t),
        None => poster,
    };
    match mode {
        Mode::Post => poster.post(),
        Mode::ImpliedBy(l) => poster.implied_by(l),
        _ => panic!("harness: constraint kind is not negatable"),
    }
}

fn finish_neg<C: NegatableConstraint>(
    solver: &mut Solver,
    c: C,
    mode: Mode,
    tag: Option<NonZero<u32>>,
) -> Result<(), ConstraintOperationError> {
    match mode {
        Mode::Post | Mode::ImpliedBy(_) => finish(solver, c, mode, tag),
        Mode::Reify(l) => {
            let poster = solver.add_constraint(c);
            let poster = match tag {
                Some(t) => poster.with_tag(t),
                None => poster,
            };
            poster.reify(l)
        }
        Mode::Negated => finish(solver, c.negation(), Mode::Post, tag),
        Mode::NegatedImpliedBy(l) => finish(solver, c.negation(), Mode::ImpliedBy(l), tag),
    }
}

fn views(xs: &[View]) -> Vec<AffineView<DomainId>> {
    xs.iter().map(|x| x.affine()).collect()
}
fn plain(xs: &[View]) -> Option<Vec<DomainId>> {
    if xs.iter().all(|x| x.is_plain()) {
        Some(xs.iter().map(|x| x.domain()).collect())
    } else {
        None
    }
}

/// Posts `c` through the public API the way a user would.
pub fn post(
    solver: &mut Solver,
    ctx: &Ctx,
    c: &Cons,
    mode: Mode,
    tag: Option<NonZero<u32>>,
) -> Result<(), ConstraintOperationError> {
    match c {
        Cons::LinLe { terms, rhs } => match plain(terms) {
            Some(xs) => finish_neg(solver, constraints::less_than_or_equals(xs, *rhs), mode, tag),
            None => finish_neg(
                solver,
                constraints::less_than_or_equals(views(terms), *rhs),
                mode,
                tag,
            ),
        },
        Cons::LinEq { terms, rhs } => match plain(terms) {
            Some(xs) => finish_neg(solver, constraints::equals(xs, *rhs), mode, tag),
            None => finish_neg(solver, constraints::equals(views(terms), *rhs), mode, tag),
        },
        Cons::LinNe { terms, rhs } => match plain(terms) {
            Some(xs) => finish_neg(solver, constraints::not_equals(xs, *rhs), mode, tag),
            None => finish_neg(solver, constraints::not_equals(views(terms), *rhs), mode, tag),
        },
        Cons::BinLe { a, b } => match plain(&[*a, *b]) {
            Some(xs) => finish_neg(
                solver,
                constraints::binary_less_than_or_equals(xs[0], xs[1]),
                mode,
                tag,
            ),
            None => finish_neg(
                solver,
                constraints::binary_less_than_or_equals(a.affine(), b.affine()),
                mode,
                tag,
            ),
        },
        Cons::BinLt { a, b } => match plain(&[*a, *b]) {
            Some(xs) => finish_neg(solver, constraints::binary_less_than(xs[0], xs[1]), mode, tag),
            None => finish_neg(
                solver,
                constraints::binary_less_than(a.affine(), b.affine()),
                mode,
                tag,
            ),
        },
        Cons::BinEq { a, b } => match plain(&[*a, *b]) {
            Some(xs) => finish_neg(solver, constraints::binary_equals(xs[0], xs[1]), mode, tag),
            None => finish_neg(
                solver,
                constraints::binary_equals(a.affine(), b.affine()),
                mode,
                tag,
            ),
        },
        Cons::BinNe { a, b } => match plain(&[*a, *b]) {
            Some(xs) => finish_neg(solver, constraints::binary_not_equals(xs[0], xs[1]), mode, tag),
            None => finish_neg(
                solver,
                constraints::binary_not_equals(a.affine(), b.affine()),
                mode,
                tag,
            ),
        },
        Cons::Plus { a, b, c } => match plain(&[*a, *b, *c]) {
            Some(xs) => finish(solver, constraints::plus(xs[0], xs[1], xs[2]), mode, tag),
            None => finish(
                solver,
                constraints::plus(a.affine(), b.affine(), c.affine()),
                mode,
                tag,
            ),
        },
        Cons::Times { a, b, c } => match plain(&[*a, *b, *c]) {
            Some(xs) => finish(solver, constraints::times(xs[0], xs[1], xs[2]), mode, tag),
            None => finish(
                solver,
                constraints::times(a.affine(), b.affine(), c.affine()),
                mode,
                tag,
            ),
        },
        Cons::Div { a, b, c } => match plain(&[*a, *b, *c]) {
            Some(xs) => finish(solver, constraints::division(xs[0], xs[1], xs[2]), mode, tag),
            None => finish(
                solver,
                constraints::division(a.affine(), b.affine(), c.affine()),
                mode,
                tag,
            ),
        },
        Cons::Abs { a, b } => match plain(&[*a, *b]) {
            Some(xs) => finish(solver, constraints::absolute(xs[0], xs[1]), mode, tag),
            None => finish(
                solver,
                constraints::absolute(a.affine(), b.affine()),
                mode,
                tag,
            ),
        },
        Cons::Max { xs, y } => {
            let mut all = xs.clone();
            all.push(*y);
            match plain(&all) {
                Some(ds) => finish(
                    solver,
                    constraints::maximum(ds[..xs.len()].to_vec(), ds[xs.len()]),
                    mode,
                    tag,
                ),
                None => finish(solver, constraints::maximum(views(xs), y.affine()), mode, tag),
            }
        }
        Cons::Min { xs, y } => {
            let mut all = xs.clone();
            all.push(*y);
            match plain(&all) {
                Some(ds) => finish(
                    solver,
                    constraints::minimum(ds[..xs.len()].to_vec(), ds[xs.len()]),
                    mode,
                    tag,
                ),
                None => finish(solver, constraints::minimum(views(xs), y.affine()), mode, tag),
            }
        }
        Cons::Element { idx, xs, y } => {
            let mut all = xs.clone();
            all.push(*y);
            all.push(*idx);
            match plain(&all) {
                Some(ds) => finish(
                    solver,
                    constraints::element(ds[xs.len() + 1], ds[..xs.len()].to_vec(), ds[xs.len()]),
                    mode,
                    tag,
                ),
                None => finish(
                    solver,
                    constraints::element(idx.affine(), views(xs), y.affine()),
                    mode,
                    tag,
                ),
            }
        }
        Cons::Alldiff { xs } => match plain(xs) {
            Some(ds) => finish(solver, constraints::all_different(ds), mode, tag),
            None => finish(solver, constraints::all_different(views(xs)), mode, tag),
        },
        Cons::Cumulative { s, d, r, cap, opts } => match plain(s) {
            Some(ds) => finish(
                solver,
                constraints::cumulative_with_options(
                    ds,
                    d.clone(),
                    r.clone(),
                    *cap,
                    opts.to_options(),
                ),
                mode,
                tag,
            ),
            None => finish(
                solver,
                constraints::cumulative_with_options(
                    views(s),
                    d.clone(),
                    r.clone(),
                    *cap,
                    opts.to_options(),
                ),
                mode,
                tag,
            ),
        },
        Cons::BoolLinLe { ws, bs, rhs } => {
            let lits: Vec<Literal> = bs.iter().map(|b| ctx.literal(b)).collect();
            finish(
                solver,
                constraints::boolean_less_than_or_equals(ws.clone(), lits, *rhs),
                mode,
                tag,
            )
        }
        Cons::BoolLinEq { ws, bs, y } => {
            let lits: Vec<Literal> = bs.iter().map(|b| ctx.literal(b)).collect();
            assert!(y.is_plain(), "harness: bool_lin_eq needs a plain rhs");
            finish(
                solver,
                constraints::boolean_equals(ws.clone(), lits, y.domain()),
                mode,
                tag,
            )
        }
        Cons::Clause { ps } => match mode {
            Mode::Post => solver.add_clause(ps.iter().map(|p| p.to_predicate())),
            _ => panic!("harness: add_clause cannot be reified"),
        },
        Cons::LitClause { ls } => {
            let lits: Vec<Literal> = ls.iter().map(|b| ctx.literal(b)).collect();
            finish_neg(solver, constraints::clause(lits), mode, None)
        }
        Cons::LitConj { ls } => {
            let lits: Vec<Literal> = ls.iter().map(|b| ctx.literal(b)).collect();
            finish_neg(solver, constraints::conjunction(lits), mode, None)
        }
        Cons::Imp { r, c } => match mode {
            Mode::Post => post(solver, ctx, c, Mode::ImpliedBy(ctx.literal(r)), tag),
            Mode::Negated => panic!("harness: negation of implication unsupported"),
            _ => panic!("harness: nested reification"),
        },
        Cons::Reif { r, c } => match mode {
            Mode::Post => post(solver, ctx, c, Mode::Reify(ctx.literal(r)), tag),
            _ => panic!("harness: nested reification"),
        },
        Cons::Neg { c } => match mode {
            Mode::Post => post(solver, ctx, c, Mode::Negated, tag),
            Mode::ImpliedBy(l) => post(solver, ctx, c, Mode::NegatedImpliedBy(l), tag),
            _ => panic!("harness: unsupported mode for negation"),
        },
        Cons::LitPred { .. } => panic!("harness: lit_pred is created with its variable"),
    }
}
