//! Runs a scenario (solver options + a history of API calls) against the real library and records
//! the trace: the harness' own events (calls, results, queries) and the solver's hook events, in
//! the order in which they happened.
use std::cell::RefCell;
use std::num::NonZero;
use std::panic::catch_unwind;
use std::panic::AssertUnwindSafe;

use pumpkin_solver::branching::branchers::alternating_brancher::AlternatingBrancher;
use pumpkin_solver::branching::branchers::alternating_brancher::AlternatingStrategy;
use pumpkin_solver::branching::branchers::dynamic_brancher::DynamicBrancher;
use pumpkin_solver::branching::branchers::independent_variable_value_brancher::IndependentVariableValueBrancher;
use pumpkin_solver::branching::value_selection::*;
use pumpkin_solver::branching::variable_selection::*;
use pumpkin_solver::branching::Brancher;
use pumpkin_solver::optimisation::linear_sat_unsat::LinearSatUnsat;
use pumpkin_solver::optimisation::linear_unsat_sat::LinearUnsatSat;
use pumpkin_solver::optimisation::OptimisationDirection;
use pumpkin_solver::options::ConflictResolver;
use pumpkin_solver::options::LearnedNogoodSortingStrategy;
use pumpkin_solver::options::LearningOptions;
use pumpkin_solver::options::RestartOptions;
use pumpkin_solver::options::SequenceGeneratorType;
use pumpkin_solver::options::SolverOptions;
use pumpkin_solver::proof::Format;
use pumpkin_solver::proof::ProofLog;
use pumpkin_solver::results::solution_iterator::IteratedSolution;
use pumpkin_solver::results::OptimisationResult;
use pumpkin_solver::results::ProblemSolution;
use pumpkin_solver::results::SatisfactionResult;
use pumpkin_solver::results::SatisfactionResultUnderAssumptions;
use pumpkin_solver::results::Solution;
use pumpkin_solver::results::SolutionReference;
use pumpkin_solver::termination::TerminationCondition;
use pumpkin_solver::variables::DomainId;
use pumpkin_solver::verif;
use pumpkin_solver::Solver;
use rand::rngs::SmallRng;
use rand::SeedableRng;
use serde::Deserialize;
use serde::Serialize;
use serde_json::json;
use serde_json::Value;

use crate::model::*;

#[derive(Clone, Debug, Serialize, Deserialize, PartialEq)]
pub struct Opts {
    /// "uip" | "nolearn"
    pub resolver: String,
    pub minimise: bool,
    /// "default" | "off" | "const" | "luby" | "geom"
    pub restart: String,
    pub restart_base: u64,
    pub restart_min_conflicts: u64,
    pub high_lbd_limit: usize,
    pub lbd_threshold: u32,
    /// "lbd" | "activity"
    pub sorting: String,
    pub seed: u64,
    /// DRCP proof logging: "" (off) | "scaffold" | "full" | "hints"
    #[serde(default)]
    pub proof: String,
}

impl Default for Opts {
    fn default() -> Self {
        Opts {
            resolver: "uip".into(),
            minimise: true,
            restart: "default".into(),
            restart_base: 50,
            restart_min_conflicts: 10000,
            high_lbd_limit: 4000,
            lbd_threshold: 5,
            sorting: "lbd".into(),
            seed: 42,
            proof: String::new(),
        }
    }
}

impl Opts {
    pub fn to_options(&self) -> SolverOptions {
        self.to_options_with(None)
    }

    pub fn to_options_with(&self, proof_path: Option<&std::path::Path>) -> SolverOptions {
        let mut restart = RestartOptions::default();
        match self.restart.as_str() {
            "default" => {}
            "off" => restart.no_restarts = true,
            kind => {
                restart.base_interval = self.restart_base;
                restart.min_num_conflicts_before_first_restart = self.restart_min_conflicts;
                // make the LBD / assigned-variables blocking heuristics permissive
                restart.lbd_coef = 0.0;
                restart.num_assigned_coef = 1e9;
                match kind {
                    "const" => restart.sequence_generator_type = SequenceGeneratorType::Constant,
                    "luby" => restart.sequence_generator_type = SequenceGeneratorType::Luby,
                    "geom" => {
                        restart.sequence_generator_type = SequenceGeneratorType::Geometric;
                        restart.geometric_coef = Some(1.5);
                    }
                    other => panic!("harness: unknown restart kind {other}"),
                }
            }
        }
        let learning = LearningOptions {
            limit_num_high_lbd_nogoods: self.high_lbd_limit,
            lbd_threshold: self.lbd_threshold,
            nogood_sorting_strategy: if self.sorting == "lbd" {
                LearnedNogoodSortingStrategy::Lbd
            } else {
                LearnedNogoodSortingStrategy::Activity
            },
            ..LearningOptions::default()
        };
        SolverOptions {
            restart_options: restart,
            learning_clause_minimisation: self.minimise,
            random_generator: SmallRng::seed_from_u64(self.seed),
            proof_log: match (proof_path, self.proof.as_str()) {
                (Some(path), "scaffold") => ProofLog::cp(path, Format::Text, false, false).expect("proof file"),
                (Some(path), "full") => ProofLog::cp(path, Format::Text, true, false).expect("proof file"),
                (Some(path), "hints") => ProofLog::cp(path, Format::Text, true, true).expect("proof file"),
                _ => Default::default(),
            },
            conflict_resolver: if self.resolver == "uip" {
                ConflictResolver::UIP
            } else {
                ConflictResolver::NoLearning
            },
            learning_options: learning,
        }
    }
}

/// Which brancher a solve uses: `kind` is "default", "indep" (variable selector `var` x value
/// selector `val`), "alt" (alternating, strategy `val % 4`, over an "indep" brancher) or "dyn"
/// (dynamic brancher of two "indep" branchers over a split of the variables).
#[derive(Clone, Debug, Serialize, Deserialize, PartialEq, Default)]
pub struct BrSpec {
    pub kind: String,
    pub var: u8,
    pub val: u8,
}

pub const NUM_VAR_SEL: u8 = 11;
pub const NUM_VAL_SEL: u8 = 14;

pub fn var_sel_name(i: u8) -> &'static str {
    [
        "AntiFirstFail",
        "FirstFail",
        "InputOrder",
        "Largest",
        "MaxRegret",
        "MostConstrained",
        "Occurrence",
        "ProportionalDomainSize",
        "RandomSelector",
        "Smallest",
        "DynamicVariableSelector(InputOrder)",
    ][i as usize % 11]
}
pub fn val_sel_name(i: u8) -> &'static str {
    [
        "InDomainInterval",
        "InDomainMax",
        "InDomainMedian",
        "InDomainMiddle",
        "InDomainMin",
        "InDomainRandom",
        "InDomainSplit",
        "InDomainSplitRandom",
        "OutDomainMax",
        "OutDomainMedian",
        "OutDomainMin",
        "OutDomainRandom",
        "RandomSplitter",
        "ReverseInDomainSplit",
    ][i as usize % 14]
}

fn make_var_sel(i: u8, vars: &[DomainId]) -> Box<dyn VariableSelector<DomainId>> {
    let occ: Vec<u32> = (0..vars.len() as u32).map(|k| 1 + k % 3).collect();
    match i % NUM_VAR_SEL {
        0 => Box::new(AntiFirstFail::new(vars)),
        1 => Box::new(FirstFail::new(vars)),
        2 => Box::new(InputOrder::new(vars)),
        3 => Box::new(Largest::new(vars)),
        4 => Box::new(MaxRegret::new(vars)),
        5 => verif_most_constrained_selector(vars, &occ),
        6 => Box::new(Occurrence::new(vars, &occ)),
        7 => Box::new(ProportionalDomainSize::new(vars)),
        8 => Box::new(RandomSelector::new(vars.iter().copied())),
        9 => Box::new(Smallest::new(vars)),
        _ => Box::new(DynamicVariableSelector::new(Box::new(InputOrder::new(vars)))),
    }
}

fn make_val_sel(i: u8) -> Box<dyn ValueSelector<DomainId>> {
    match i % NUM_VAL_SEL {
        0 => Box::new(InDomainInterval),
        1 => Box::new(InDomainMax),
        2 => Box::new(InDomainMedian),
        3 => Box::new(InDomainMiddle),
        4 => Box::new(InDomainMin),
        5 => Box::new(InDomainRandom),
        6 => Box::new(InDomainSplit),
        7 => Box::new(InDomainSplitRandom),
        8 => Box::new(OutDomainMax),
        9 => Box::new(OutDomainMedian),
        10 => Box::new(OutDomainMin),
        11 => Box::new(OutDomainRandom),
        12 => Box::new(RandomSplitter),
        _ => Box::new(ReverseInDomainSplit),
    }
}

fn indep(var: u8, val: u8, vars: &[DomainId]) -> Box<dyn Brancher> {
    Box::new(IndependentVariableValueBrancher::new(
        DynamicVariableSelector::new(make_var_sel(var, vars)),
        DynamicValueSelector::new(make_val_sel(val)),
    ))
}

pub fn make_brancher(spec: &BrSpec, solver: &Solver, vars: &[DomainId]) -> DynamicBrancher {
    match spec.kind.as_str() {
        "indep" => DynamicBrancher::new(vec![indep(spec.var, spec.val, vars)]),
        "alt" => {
            let strategy = match spec.val % 4 {
                0 => AlternatingStrategy::EveryRestart,
                1 => AlternatingStrategy::EveryOtherSolution,
                2 => AlternatingStrategy::EverySolution,
                _ => AlternatingStrategy::SwitchToDefaultAfterFirstSolution,
            };
            let other = DynamicBrancher::new(vec![indep(spec.var, spec.val / 4, vars)]);
            DynamicBrancher::new(vec![Box::new(AlternatingBrancher::new(
                solver, other, strategy,
            ))])
        }
        "dyn" => {
            let mid = vars.len() / 2;
            // RandomSelector (index 8) is documented to work over ALL variables in creation order
            // only (its SparseSet maps domain id - 1 to a position), so it is not used on a subset.
            let sub = |v: u8| if v % NUM_VAR_SEL == 8 { v + 1 } else { v };
            DynamicBrancher::new(vec![
                indep(sub(spec.var), spec.val, &vars[mid..]),
                indep(sub(spec.var.wrapping_add(3)), spec.val.wrapping_add(5), &vars[..mid]),
            ])
        }
        _ => DynamicBrancher::new(vec![Box::new(solver.default_brancher())]),
    }
}

#[derive(Clone, Debug, Serialize, Deserialize, PartialEq)]
#[serde(tag = "op", rename_all = "snake_case")]
pub enum Step {
    /// `sparse` forces `new_sparse_integer` even for a contiguous range
    NewVar { vals: Vec<i32>, sparse: bool },
    /// a bounded variable given by its range only (ranges too large to list, family `big`)
    NewVarRange { lo: i32, hi: i32 },
    /// point query: `satisfy_under_assumptions([x = v] for every variable)`; `vals[0]` is the dummy
    Point { vals: Vec<i32> },
    /// a planted solution of the model posted so far (`vals[0]` is the dummy); only announced to the
    /// trace, where the specification verifies it (spec/Witness.tla)
    Witness { vals: Vec<i32> },
    NewLit,
    NewLitPred { p: Pred },
    Post { c: Cons, tag: Option<u32> },
    Bounds { xs: Vec<View> },
    Satisfy { br: BrSpec, stop_at: Option<u64> },
    AssumeSolve {
        br: BrSpec,
        assum: Vec<Pred>,
        core: bool,
        stop_at: Option<u64>,
    },
    Iterate {
        br: BrSpec,
        max: usize,
        stop_at: Option<u64>,
        /// the termination condition fires at poll `stop_at` only (not from then on) and the SAME
        /// iterator is asked again after it reported Unknown
        #[serde(default)]
        resume: bool,
    },
    Optimise {
        br: BrSpec,
        maximise: bool,
        lus: bool,
        obj: View,
        stop_at: Option<u64>,
    },
}

#[derive(Clone, Debug, Serialize, Deserialize, PartialEq)]
pub struct Scenario {
    pub fam: String,
    pub id: u64,
    pub opts: Opts,
    pub steps: Vec<Step>,
    /// record the engine-level hook events (otherwise only the API-level events)
    pub engine: bool,
}

/// Counts polls; fires (and stays fired) from poll number `stop_at` on (0-based), never if `None`.
/// A hard cap guards against non-termination of the code under test.
pub struct Budget {
    pub polls: u64,
    pub stop_at: Option<u64>,
    pub cap: u64,
    pub capped: bool,
    /// fire at poll `stop_at` only, instead of from poll `stop_at` on
    pub one_shot: bool,
}

impl Budget {
    pub fn new(stop_at: Option<u64>, cap: u64) -> Self {
        Budget {
            polls: 0,
            stop_at,
            cap,
            capped: false,
            one_shot: false,
        }
    }
}

impl TerminationCondition for Budget {
    fn should_stop(&mut self) -> bool {
        let k = self.polls;
        self.polls += 1;
        if k >= self.cap {
            self.capped = true;
            return true;
        }
        if self.one_shot {
            return self.stop_at == Some(k);
        }
        matches!(self.stop_at, Some(s) if k >= s)
    }
}

thread_local! {
    static LAST_PANIC: RefCell<Option<String>> = const { RefCell::new(None) };
}

pub fn install_panic_hook() {
    std::panic::set_hook(Box::new(|info| {
        let msg = if let Some(s) = info.payload().downcast_ref::<&str>() {
            (*s).to_owned()
        } else if let Some(s) = info.payload().downcast_ref::<String>() {
            s.clone()
        } else {
            "<non-string panic>".to_owned()
        };
        let loc = info
            .location()
            .map(|l| format!("{}:{}", l.file(), l.line()))
            .unwrap_or_default();
        LAST_PANIC.with(|p| *p.borrow_mut() = Some(format!("{msg} @ {loc}")));
    }));
}

fn take_panic() -> String {
    LAST_PANIC
        .with(|p| p.borrow_mut().take())
        .unwrap_or_else(|| "<unknown panic>".to_owned())
}

/// Value reported for a variable the solution does not fix (TLC cannot read JSON null).
pub const UNFIXED: i64 = -99999;

fn stop_json(stop_at: &Option<u64>) -> i64 {
    stop_at.map(|x| x as i64).unwrap_or(-1)
}

fn ext(v: Value) {
    verif::emit_ext(v.to_string());
}

fn pj(p: &verif::P) -> Value {
    json!({"x": {"v": p.d + 1, "s": 1, "o": 0}, "op": p.op, "k": p.k})
}
fn pjs(ps: &[verif::P]) -> Value {
    Value::Array(ps.iter().map(pj).collect())
}

/// Hook event -> JSON (variables shifted to the TLA+ indices).
pub fn event_json(e: &verif::Event) -> Value {
    use verif::Event::*;
    match e {
        PropagatorAdded { id, name, tag } => {
            json!({"e":"PropagatorAdded","id":id,"name":name,"tag":tag.unwrap_or(0)})
        }
        State { s } => json!({"e":"State","s":s}),
        Poll { stop } => json!({"e":"Poll","stop":stop}),
        Assume { p, ok, lvl, pos } => json!({"e":"Assume","p":pj(p),"ok":ok,"lvl":lvl,"pos":pos}),
        Decide {
            p,
            before,
            lvl,
            pos,
        } => json!({"e":"Decide","p":pj(p),"before":before,"lvl":lvl,"pos":pos}),
        NoDecision { vals } => {
            json!({"e":"NoDecision","vals": vals.iter().map(|(l,u)| json!([l,u])).collect::<Vec<_>>()})
        }
        Propagated {
            prop,
            p,
            reason,
            lazy,
            lvl,
            idx,
        } => json!({"e":"Propagated","prop": if *prop == u32::MAX { -1 } else { *prop as i64 },
                    "p":pj(p),"reason":pjs(reason),"lazy":lazy,"lvl":lvl,"idx":idx}),
        PropConflict { prop, nogood } => {
            json!({"e":"PropConflict","prop":prop,"nogood":pjs(nogood)})
        }
        EmptyDomain { nogood, pos } => json!({"e":"EmptyDomain","nogood":pjs(nogood),"pos":pos}),
        RootConflict => json!({"e":"RootConflict"}),
        Explain {
            p,
            reason,
            kind,
            prop,
        } => json!({"e":"Explain","p":pj(p),"reason":pjs(reason),"kind":kind,
                    "prop": prop.map(|x| x as i64).unwrap_or(-1)}),
        Analysis { mode, conflict } => {
            json!({"e":"Analysis","mode":mode,"conflict":pjs(conflict)})
        }
        Minimise {
            which,
            input,
            output,
        } => json!({"e":"Minimise","which":which,"input":pjs(input),"output":pjs(output)}),
        Learned {
            mode,
            nogood,
            backjump,
        } => json!({"e":"Learned","mode":mode,"nogood":pjs(nogood),"backjump":backjump}),
        Flip { p, lvl, pos } => json!({"e":"Flip","p":pj(p),"lvl":lvl,"pos":pos}),
        Backtrack { to, pos } => json!({"e":"Backtrack","to":to,"pos":pos}),
        Restart => json!({"e":"Restart"}),
        NogoodAdded { id, preds, learned } => {
            json!({"e":"NogoodAdded","id":id,"preds":pjs(preds),"learned":learned})
        }
        NogoodDeleted { id } => json!({"e":"NogoodDeleted","id":id}),
        TimeTable {
            what,
            incr,
            had_updates,
            table_empty,
            outdated_before,
            outdated_after,
            same,
        } => json!({"e":"TT","what":what,"incr":incr,"upd":had_updates,"empty":table_empty,
                    "ob":outdated_before,"oa":outdated_after,"same":same}),
        Reif { what, lit, cached } => {
            json!({"e":"Reif","what":what,"lit":pj(lit),"cached":cached})
        }
        Ext(s) => serde_json::from_str(s).expect("harness event is JSON"),
    }
}

fn is_engine_event(e: &verif::Event) -> bool {
    !matches!(e, verif::Event::Ext(_))
}

struct Run {
    solver: Solver,
    ctx: Ctx,
    /// number of variables including the dummy (TLA+ index of the last variable)
    nvars: u32,
    poll_cap: u64,
    /// proof logging needs every variable to have a name ("x<index>")
    named: bool,
}

impl Run {
    fn user_vars(&self) -> Vec<DomainId> {
        (1..self.nvars).map(DomainId::new).collect()
    }

    fn sol_json(&self, sol: SolutionReference<'_>) -> Value {
        let mut out = vec![];
        for d in 0..self.nvars {
            let v = catch_unwind(AssertUnwindSafe(|| sol.get_integer_value(DomainId::new(d))));
            match v {
                Ok(x) => out.push(json!(x)),
                Err(_) => {
                    let _ = take_panic();
                    out.push(json!(UNFIXED))
                }
            }
        }
        Value::Array(out)
    }

    fn query_bounds(&self, xs: &[View]) {
        for x in xs {
            let (lb, ub) = if x.is_plain() {
                (
                    self.solver.lower_bound(&x.domain()),
                    self.solver.upper_bound(&x.domain()),
                )
            } else {
                (
                    self.solver.lower_bound(&x.affine()),
                    self.solver.upper_bound(&x.affine()),
                )
            };
            ext(json!({"e":"Bounds","x":x,"lb":lb,"ub":ub}));
            if let Some(l) = self.ctx.lits.get(&x.v) {
                if x.is_plain() {
                    let val = match self.solver.get_literal_value(*l) {
                        Some(true) => 1,
                        Some(false) => 0,
                        None => -1,
                    };
                    ext(json!({"e":"LitValue","x":x,"val":val}));
                }
            }
        }
    }
}

/// Runs the scenario; returns the trace lines. Never panics because of the code under test.
pub fn run_scenario(scn: &Scenario) -> Vec<Value> {
    verif::start();
    ext(json!({"e":"Reset","fam":scn.fam,"id":scn.id,"engine":scn.engine,"opts":scn.opts}));
    let outcome = catch_unwind(AssertUnwindSafe(|| run_steps(scn)));
    if outcome.is_err() {
        ext(json!({"e":"Panic","msg":take_panic(),"where":"harness-level"}));
    }
    let events = verif::stop();
    let mut out = vec![];
    for e in events.iter() {
        if !scn.engine && is_engine_event(e) {
            // the `planted*` families (models too large for every engine event) keep the learned
            // nogoods, which spec/Witness.tla judges against the verified solutions
            if !(scn.fam.starts_with("planted") && matches!(e, verif::Event::Learned { .. })) {
                continue;
            }
        }
        out.push(event_json(e));
    }
    out
}

fn guarded<T>(what: &str, f: impl FnOnce() -> T) -> Option<T> {
    match catch_unwind(AssertUnwindSafe(f)) {
        Ok(v) => Some(v),
        Err(_) => {
            ext(json!({"e":"Panic","api":what,"msg":take_panic()}));
            None
        }
    }
}

fn run_steps(scn: &Scenario) {
    let proof_path = if scn.opts.proof.is_empty() {
        None
    } else {
        let dir = std::env::var("PVH_PROOF_DIR").unwrap_or_else(|_| "/verif/work/proofs".into());
        let _ = std::fs::create_dir_all(&dir);
        Some(std::path::PathBuf::from(dir).join(format!(
            "p_{}_{}_{}.drcp",
            std::process::id(),
            scn.fam,
            scn.id
        )))
    };
    let mut run = Run {
        solver: Solver::with_options(scn.opts.to_options_with(proof_path.as_deref())),
        ctx: Ctx::default(),
        nvars: 1,
        // runs that record every engine event are cut much earlier: a capped run of 60 000 polls
        // is a trace of > 100 MB (reported as informational `C02x.CappedEarly`, see Trace.tla)
        poll_cap: std::env::var("PVH_POLL_CAP")
            .ok()
            .and_then(|s| s.parse().ok())
            .unwrap_or(if scn.engine { 6_000 } else { 500_000 }),
        named: proof_path.is_some(),
    };
    let mut completed = true;
    for step in scn.steps.iter() {
        let cont = run_step(&mut run, step);
        if !cont {
            completed = false;
            break;
        }
    }
    // the proof files are complete once the solver is gone
    drop(run);
    if let Some(path) = proof_path {
        if completed {
            crate::proofread::emit_proof_events(&path, &mut |v| ext(v));
        }
        let _ = std::fs::remove_file(&path);
        let _ = std::fs::remove_file(path.with_extension("lits"));
    }
}

fn run_step(run: &mut Run, step: &Step) -> bool {
    match step {
        Step::NewVar { vals, sparse } => {
            let mut sorted = vals.clone();
            sorted.sort();
            sorted.dedup();
            let contiguous =
                (sorted[sorted.len() - 1] - sorted[0]) as usize + 1 == sorted.len();
            let name = format!("x{}", run.nvars + 1);
            let named = run.named;
            let r = guarded("new_var", || {
                if contiguous && !*sparse {
                    if named {
                        run.solver.new_named_bounded_integer(sorted[0], sorted[sorted.len() - 1], name)
                    } else {
                        run.solver
                            .new_bounded_integer(sorted[0], sorted[sorted.len() - 1])
                    }
                } else if named {
                    run.solver.new_named_sparse_integer(vals.clone(), name)
                } else {
                    run.solver.new_sparse_integer(vals.clone())
                }
            });
            let Some(d) = r else { return false };
            run.nvars += 1;
            assert_eq!(d.id + 1, run.nvars - 0, "harness: unexpected domain id");
            ext(json!({"e":"NewVar","v":run.nvars,"vals":sorted,"lit":false}));
            true
        }
        Step::NewVarRange { lo, hi } => {
            let r = guarded("new_var", || run.solver.new_bounded_integer(*lo, *hi));
            let Some(d) = r else { return false };
            run.nvars += 1;
            assert_eq!(d.id + 1, run.nvars, "harness: unexpected domain id");
            ext(json!({"e":"NewVarR","v":run.nvars,"lo":lo,"hi":hi}));
            true
        }
        Step::Witness { vals } => {
            ext(json!({"e":"Witness","vals":vals}));
            true
        }
        Step::Point { vals } => {
            let vars = run.user_vars();
            let mut budget = Budget::new(None, run.poll_cap);
            let preds: Vec<_> = vars
                .iter()
                .map(|d| {
                    pumpkin_solver::predicate![d == vals[d.id as usize]]
                })
                .collect();
            let br = BrSpec { kind: "default".into(), var: 0, val: 0 };
            let r = guarded("point", || {
                let mut brancher = make_brancher(&br, &run.solver, &vars);
                let result =
                    run.solver
                        .satisfy_under_assumptions(&mut brancher, &mut budget, &preds);
                match result {
                    SatisfactionResultUnderAssumptions::Satisfiable(s) => ("SAT", Some(s)),
                    SatisfactionResultUnderAssumptions::Unsatisfiable => ("UNSAT", None),
                    SatisfactionResultUnderAssumptions::Unknown => ("UNKNOWN", None),
                    SatisfactionResultUnderAssumptions::UnsatisfiableUnderAssumptions(_) => ("UNSAT_UA", None),
                }
            });
            let Some((res, sol)) = r else { return false };
            let sol = match sol {
                Some(s) => run.sol_json(s.as_reference()),
                None => json!([]),
            };
            ext(json!({"e":"Point","vals":vals,"res":res,"sol":sol}));
            true
        }
        Step::NewLit => {
            let name = format!("x{}", run.nvars + 1);
            let named = run.named;
            let Some(l) = guarded("new_literal", || {
                if named {
                    run.solver.new_named_literal(name)
                } else {
                    run.solver.new_literal()
                }
            }) else {
                return false;
            };
            run.nvars += 1;
            let _ = run.ctx.lits.insert(run.nvars, l);
            ext(json!({"e":"NewVar","v":run.nvars,"vals":[0,1],"lit":true}));
            true
        }
        Step::NewLitPred { p } => {
            // the variable is announced first (the clauses defining it are added inside the call)
            let v = run.nvars + 1;
            ext(json!({"e":"NewVar","v":v,"vals":[0,1],"lit":true}));
            let c = Cons::LitPred {
                l: View::var(v),
                p: *p,
            };
            ext(json!({"e":"Post","c":c,"tag":0}));
            let r = guarded("new_literal_for_predicate", || {
                run.solver.new_literal_for_predicate(p.to_predicate())
            });
            let Some(l) = r else { return false };
            run.nvars += 1;
            let _ = run.ctx.lits.insert(run.nvars, l);
            ext(json!({"e":"PostEnd","ok":true,"defines":true}));
            true
        }
        Step::Post { c, tag } => {
            ext(json!({"e":"Post","c":c,"tag":tag.unwrap_or(0)}));
            let tag = tag.and_then(NonZero::new);
            let r = guarded("post", || post(&mut run.solver, &run.ctx, c, Mode::Post, tag));
            let Some(r) = r else { return false };
            ext(json!({"e":"PostEnd","ok":r.is_ok(),"defines":false}));
            true
        }
        Step::Bounds { xs } => {
            let r = guarded("bounds", || run.query_bounds(xs));
            r.is_some()
        }
        Step::Satisfy { br, stop_at } => {
            ext(json!({"e":"Call","api":"satisfy","assum":[],"br":br,"stop_at":stop_json(stop_at)}));
            let vars = run.user_vars();
            let mut budget = Budget::new(*stop_at, run.poll_cap);
            let r = guarded("satisfy", || {
                let mut brancher = make_brancher(br, &run.solver, &vars);
                match run.solver.satisfy(&mut brancher, &mut budget) {
                    SatisfactionResult::Satisfiable(s) => ("SAT", Some(s)),
                    SatisfactionResult::Unsatisfiable => ("UNSAT", None),
                    SatisfactionResult::Unknown => ("UNKNOWN", None),
                }
            });
            let Some((res, sol)) = r else { return false };
            ret(run, "satisfy", res, sol.as_ref(), &budget);
            true
        }
        Step::AssumeSolve {
            br,
            assum,
            core,
            stop_at,
        } => {
            ext(json!({"e":"Call","api":"assume","assum":assum,"br":br,"stop_at":stop_json(stop_at),"core":core}));
            let vars = run.user_vars();
            let mut budget = Budget::new(*stop_at, run.poll_cap);
            let preds: Vec<_> = assum.iter().map(|p| p.to_predicate()).collect();
            let r = guarded("satisfy_under_assumptions", || {
                let mut brancher = make_brancher(br, &run.solver, &vars);
                let result =
                    run.solver
                        .satisfy_under_assumptions(&mut brancher, &mut budget, &preds);
                match result {
                    SatisfactionResultUnderAssumptions::Satisfiable(s) => ("SAT", Some(s), None),
                    SatisfactionResultUnderAssumptions::Unsatisfiable => ("UNSAT", None, None),
                    SatisfactionResultUnderAssumptions::Unknown => ("UNKNOWN", None, None),
                    SatisfactionResultUnderAssumptions::UnsatisfiableUnderAssumptions(mut u) => {
                        if *core {
                            let c = catch_unwind(AssertUnwindSafe(|| u.extract_core()));
                            match c {
                                Ok(c) => {
                                    let ps: Vec<verif::P> =
                                        c.iter().map(|p| verif::P::from(*p)).collect();
                                    ("UNSAT_UA", None, Some(Ok(ps)))
                                }
                                Err(_) => ("UNSAT_UA", None, Some(Err(take_panic()))),
                            }
                        } else {
                            ("UNSAT_UA", None, None)
                        }
                    }
                }
            });
            let Some((res, sol, core_result)) = r else {
                return false;
            };
            match core_result {
                Some(Ok(ps)) => ext(json!({"e":"Core","preds":pjs(&ps)})),
                Some(Err(msg)) => {
                    let pair = msg.starts_with("Conflicting assumptions were provided");
                    ext(json!({"e":"CorePanic","pair":pair,"msg":msg}));
                    if !pair {
                        ret(run, "assume", res, sol.as_ref(), &budget);
                        return false;
                    }
                }
                None => {}
            }
            ret(run, "assume", res, sol.as_ref(), &budget);
            true
        }
        Step::Iterate { br, max, stop_at, resume } => {
            ext(json!({"e":"Call","api":"iterate","assum":[],"br":br,"stop_at":stop_json(stop_at),"max":max}));
            let vars = run.user_vars();
            let mut budget = Budget::new(*stop_at, run.poll_cap);
            budget.one_shot = *resume;
            let mut resumed = false;
            let nvars = run.nvars;
            let r = guarded("iterate", || {
                let mut brancher = make_brancher(br, &run.solver, &vars);
                let mut it = run
                    .solver
                    .get_solution_iterator(&mut brancher, &mut budget);
                let mut n = 0usize;
                loop {
                    if n >= *max {
                        ext(json!({"e":"IterStop","n":n}));
                        break;
                    }
                    ext(json!({"e":"IterCall"}));
                    match it.next_solution() {
                        IteratedSolution::Solution(s, _, _) => {
                            n += 1;
                            ext(json!({"e":"IterSolution","sol":sol_values(nvars, s.as_reference())}));
                        }
                        IteratedSolution::Finished => {
                            ext(json!({"e":"IterEnd","kind":"FINISHED","n":n}));
                            break;
                        }
                        IteratedSolution::Unsatisfiable => {
                            ext(json!({"e":"IterEnd","kind":"UNSAT","n":n}));
                            break;
                        }
                        IteratedSolution::Unknown => {
                            ext(json!({"e":"IterEnd","kind":"UNKNOWN","n":n}));
                            if *resume && !resumed {
                                resumed = true;
                                continue;
                            }
                            break;
                        }
                    }
                }
            });
            if r.is_none() {
                return false;
            }
            ext(json!({"e":"Return","api":"iterate","res":"DONE","sol":[],
                       "polls":budget.polls,"capped":budget.capped}));
            true
        }
        Step::Optimise {
            br,
            maximise,
            lus,
            obj,
            stop_at,
        } => {
            ext(json!({"e":"Call","api":"optimise","assum":[],"br":br,"stop_at":stop_json(stop_at),
                       "maximise":maximise,"lus":lus,"obj":obj}));
            let vars = run.user_vars();
            let mut budget = Budget::new(*stop_at, run.poll_cap);
            let nvars = run.nvars;
            let dir = if *maximise {
                OptimisationDirection::Maximise
            } else {
                OptimisationDirection::Minimise
            };
            let callback =
                move |_: &Solver, s: SolutionReference<'_>, _: &DynamicBrancher| {
                    ext(json!({"e":"Callback","sol":sol_values(nvars, s)}));
                };
            let r = guarded("optimise", || {
                let mut brancher = make_brancher(br, &run.solver, &vars);
                let result = match (*lus, obj.is_plain()) {
                    (false, true) => run.solver.optimise(
                        &mut brancher,
                        &mut budget,
                        LinearSatUnsat::new(dir, obj.domain(), callback),
                    ),
                    (false, false) => run.solver.optimise(
                        &mut brancher,
                        &mut budget,
                        LinearSatUnsat::new(dir, obj.affine(), callback),
                    ),
                    (true, true) => run.solver.optimise(
                        &mut brancher,
                        &mut budget,
                        LinearUnsatSat::new(dir, obj.domain(), callback),
                    ),
                    (true, false) => run.solver.optimise(
                        &mut brancher,
                        &mut budget,
                        LinearUnsatSat::new(dir, obj.affine(), callback),
                    ),
                };
                match result {
                    OptimisationResult::Optimal(s) => ("OPTIMAL", Some(s)),
                    OptimisationResult::Satisfiable(s) => ("SAT", Some(s)),
                    OptimisationResult::Unsatisfiable => ("UNSAT", None),
                    OptimisationResult::Unknown => ("UNKNOWN", None),
                }
            });
            let Some((res, sol)) = r else { return false };
            ret(run, "optimise", res, sol.as_ref(), &budget);
            true
        }
    }
}

fn sol_values(nvars: u32, sol: SolutionReference<'_>) -> Value {
    let mut out = vec![];
    for d in 0..nvars {
        let v = catch_unwind(AssertUnwindSafe(|| sol.get_integer_value(DomainId::new(d))));
        match v {
            Ok(x) => out.push(json!(x)),
            Err(_) => {
                let _ = take_panic();
                out.push(json!(UNFIXED))
            }
        }
    }
    Value::Array(out)
}

fn ret(run: &Run, api: &str, res: &str, sol: Option<&Solution>, budget: &Budget) {
    let sol = match sol {
        Some(s) => run.sol_json(s.as_reference()),
        None => json!([]),
    };
    ext(json!({"e":"Return","api":api,"res":res,"sol":sol,"polls":budget.polls,"capped":budget.capped}));
}
