//! Family `big` (property C16): one or two constraints over variables whose ranges, coefficients
//! or intermediate products sit at the 32-bit boundaries, together with planted total points. The
//! generator only *steers* (it computes in i128 to plant points that are likely solutions or near
//! misses); the verdict on every point is computed by `BigInt.tla` inside TLC.
use rand::rngs::SmallRng;
use rand::seq::SliceRandom;
use rand::Rng;

use crate::gen::rng_for;
use crate::interp::BrSpec;
use crate::interp::Opts;
use crate::interp::Scenario;
use crate::interp::Step;
use crate::model::Cons;
use crate::model::View;

const MAGS: [i64; 12] = [
    46340,
    46341,
    65535,
    65536,
    70000,
    1 << 20,
    (1 << 30) - 1,
    1 << 30,
    (1 << 30) + 1,
    i32::MAX as i64 - 1,
    i32::MAX as i64,
    1_500_000_000,
];

pub const BIG_KINDS: [&str; 11] = [
    "lin_le", "lin_eq", "lin_ne", "times", "div", "abs", "max", "min", "element", "plus", "bin_le",
];

struct B {
    rng: SmallRng,
    lo: Vec<i64>, // per variable index (0 and 1 unused: 1 is the dummy)
    hi: Vec<i64>,
    anchor: Vec<i64>,
    steps: Vec<Step>,
}

fn clamp(x: i128) -> i64 {
    x.clamp(-(i32::MAX as i128), i32::MAX as i128) as i64
}

impl B {
    fn mag(&mut self) -> i64 {
        let m = *MAGS.choose(&mut self.rng).unwrap();
        if self.rng.gen_bool(0.3) {
            -m
        } else {
            m
        }
    }

    /// A new variable whose range contains `anchor`.
    fn var(&mut self, anchor: i64) -> u32 {
        let anchor = clamp(anchor as i128);
        let (lo, hi) = match self.rng.gen_range(0..7) {
            0 => (anchor, anchor),
            1 => (anchor - 1, anchor + 1),
            2 => (anchor - self.rng.gen_range(0..5), anchor + self.rng.gen_range(0..5)),
            3 => (anchor.min(0), anchor.max(0)),
            4 => (-anchor.abs(), anchor.abs()),
            5 => (anchor - 1000, anchor + 100_000),
            _ => (-(i32::MAX as i64), i32::MAX as i64),
        };
        let (lo, hi) = (clamp(lo as i128), clamp(hi as i128));
        self.lo.push(lo);
        self.hi.push(hi);
        self.anchor.push(anchor);
        self.steps.push(Step::NewVarRange {
            lo: lo as i32,
            hi: hi as i32,
        });
        (self.lo.len() - 1) as u32
    }

    /// A view of `v` all of whose values fit an i32 (otherwise the plain variable).
    fn view(&mut self, v: u32) -> View {
        let (s, o): (i64, i64) = match self.rng.gen_range(0..8) {
            0 | 1 | 2 => (1, 0),
            3 => (-1, 0),
            4 => (1, self.rng.gen_range(-5..=5)),
            5 => (self.rng.gen_range(2..=3), 0),
            6 => (-2, self.rng.gen_range(-3..=3)),
            _ => (1, self.mag() / 2),
        };
        let fits = |x: i64| {
            let y = s as i128 * x as i128 + o as i128;
            y.abs() <= i32::MAX as i128
        };
        let vi = v as usize;
        if fits(self.lo[vi]) && fits(self.hi[vi]) {
            View { v, s: s as i32, o: o as i32 }
        } else {
            View { v, s: 1, o: 0 }
        }
    }

    fn val(&self, x: &View, point: &[i64]) -> i128 {
        x.s as i128 * point[x.v as usize] as i128 + x.o as i128
    }
}

/// Solves `x.s * v + x.o = target` for v if possible (steering only).
fn invert(x: &View, target: i128) -> Option<i64> {
    let t = target - x.o as i128;
    if x.s == 0 || t % x.s as i128 != 0 {
        return None;
    }
    let v = t / x.s as i128;
    (v.abs() <= i32::MAX as i128).then_some(v as i64)
}

/// Optimisation whose optimum is (next to) an extreme value of the objective: one or two variables
/// with a handful of values at i32::MIN or i32::MAX, an optional linear side constraint, the
/// objective a variable or its negated view, both directions and both procedures.
fn fam_bigopt(seed: u64, index: u64) -> Scenario {
    let mut rng = rng_for(seed, "bigopt", index);
    let at_min = rng.gen_bool(0.5);
    let mut steps = vec![];
    let nv = rng.gen_range(1..=2u32);
    for _ in 0..nv {
        let k = rng.gen_range(0..=4) as i64;
        let off = rng.gen_range(0..=1) as i64;
        let (lo, hi) = if at_min {
            (i32::MIN as i64 + off, i32::MIN as i64 + off + k)
        } else {
            (i32::MAX as i64 - off - k, i32::MAX as i64 - off)
        };
        steps.push(Step::NewVarRange { lo: lo as i32, hi: hi as i32 });
    }
    if nv == 2 && !at_min && rng.gen_bool(0.7) {
        let c = if rng.gen_bool(0.5) {
            Cons::LinNe { terms: vec![View::var(2), View { v: 3, s: -1, o: 0 }], rhs: 0 }
        } else {
            Cons::LinLe { terms: vec![View::var(2), View { v: 3, s: -1, o: 0 }], rhs: 0 }
        };
        steps.push(Step::Post { c, tag: None });
    }
    // (a negated view of a domain that contains i32::MIN has a value outside i32 - a precondition of
    //  views - and maximisation negates the objective internally: at the lower extreme the objective
    //  is the plain variable and it is minimised; see F47 in DESIGN.md)
    let (obj, maximise) = if at_min {
        (View::var(2), false)
    } else {
        (if rng.gen_bool(0.5) { View::var(2) } else { View { v: 2, s: -1, o: 0 } }, rng.gen_bool(0.5))
    };
    let br = BrSpec { kind: "indep".into(), var: 2, val: *[1u8, 4, 2].choose(&mut rng).unwrap() };
    steps.push(Step::Optimise { br, maximise, lus: rng.gen_bool(0.5), obj, stop_at: Some(2000) });
    Scenario { fam: "big".into(), id: index, opts: Opts::default(), steps, engine: false }
}

/// Absolute value over a domain that contains i32::MIN (whose absolute value is not an i32).
fn fam_bigabs(seed: u64, index: u64) -> Scenario {
    let mut rng = rng_for(seed, "bigabs", index);
    let hi = if rng.gen_bool(0.5) { i32::MIN + rng.gen_range(0..=4) } else { rng.gen_range(-3..=5) };
    let mut steps = vec![
        Step::NewVarRange { lo: i32::MIN, hi },
        Step::NewVarRange { lo: if rng.gen_bool(0.5) { 0 } else { -5 }, hi: i32::MAX - rng.gen_range(0..=1) },
        Step::Post { c: Cons::Abs { a: View::var(2), b: View::var(3) }, tag: None },
        Step::Bounds { xs: vec![View::var(2), View::var(3)] },
    ];
    for x in [i32::MIN, i32::MIN + 1, hi] {
        let y = if x == i32::MIN { i32::MAX } else { x.checked_abs().unwrap_or(i32::MAX) };
        steps.push(Step::Point { vals: vec![1, x, y] });
        steps.push(Step::Point { vals: vec![1, x, y.saturating_sub(1).max(0)] });
    }
    steps.push(Step::Satisfy { br: BrSpec { kind: "default".into(), var: 0, val: 0 }, stop_at: Some(400) });
    Scenario { fam: "big".into(), id: index, opts: Opts::default(), steps, engine: false }
}

pub fn fam_big(seed: u64, _tier: &str, index: u64) -> Scenario {
    // every eleventh scenario optimises at the extreme values, another one takes |i32::MIN|
    if index % 11 == 10 {
        return fam_bigopt(seed, index);
    }
    if index % 11 == 9 {
        return fam_bigabs(seed, index);
    }
    let rng = rng_for(seed, "big", index);
    let mut b = B {
        rng,
        lo: vec![1, 1],
        hi: vec![1, 1],
        anchor: vec![1, 1],
        steps: vec![],
    };
    let kind = BIG_KINDS[(index as usize) % BIG_KINDS.len()];
    // inputs: anchors at the chosen magnitudes
    let n_in = match kind {
        "lin_le" | "lin_eq" | "lin_ne" => b.rng.gen_range(2..=4),
        "max" | "min" | "element" => b.rng.gen_range(2..=3),
        "abs" => 1,
        _ => 2,
    };
    let mut ins = vec![];
    for i in 0..n_in {
        let a = match kind {
            "times" => {
                let m = b.mag();
                if i == 0 {
                    m
                } else {
                    // second factor: product lands just inside / outside the i32 range
                    let first = b.anchor[2].max(1).abs().max(1);
                    let q = i32::MAX as i64 / first;
                    (q + b.rng.gen_range(-1..=1)) * if b.rng.gen_bool(0.25) { -1 } else { 1 }
                }
            }
            "div" if i == 1 => {
                let d = *[1i64, -1, 2, 3, 7, 46341, 65536, i32::MAX as i64].choose(&mut b.rng).unwrap();
                d
            }
            _ => b.mag() + b.rng.gen_range(-2..=2),
        };
        let v = if kind == "div" && i == 1 {
            // the denominator's range must not contain 0 (documented precondition)
            let a = clamp(a as i128);
            let (lo, hi) = if a > 0 {
                (1.max(a - b.rng.gen_range(0..3)), clamp(a as i128 + b.rng.gen_range(0..3)))
            } else {
                (clamp(a as i128 - b.rng.gen_range(0..3)), (-1).min(a + b.rng.gen_range(0..3)))
            };
            b.lo.push(lo);
            b.hi.push(hi);
            b.anchor.push(a);
            b.steps.push(Step::NewVarRange { lo: lo as i32, hi: hi as i32 });
            (b.lo.len() - 1) as u32
        } else {
            b.var(a)
        };
        ins.push(v);
    }
    let in_views: Vec<View> = ins
        .iter()
        .map(|v| if kind == "div" { View { v: *v, s: 1, o: 0 } } else { b.view(*v) })
        .collect();
    let anchor_pt: Vec<i64> = b.anchor.clone();
    let vals: Vec<i128> = in_views.iter().map(|x| b.val(x, &anchor_pt)).collect();
    // the exact result at the anchor
    let mut out_views: Vec<View> = vec![];
    let cons = match kind {
        "lin_le" | "lin_eq" | "lin_ne" => {
            let s: i128 = vals.iter().sum();
            let delta = *[0i128, 0, 1, -1, 5, -100].choose(&mut b.rng).unwrap();
            let rhs = clamp(s + delta) as i32;
            match kind {
                "lin_le" => Cons::LinLe { terms: in_views.clone(), rhs },
                "lin_eq" => Cons::LinEq { terms: in_views.clone(), rhs },
                _ => Cons::LinNe { terms: in_views.clone(), rhs },
            }
        }
        "bin_le" => Cons::BinLe { a: in_views[0], b: in_views[1] },
        _ => {
            let result: i128 = match kind {
                "times" => vals[0] * vals[1],
                "div" => vals[0] / vals[1],
                "abs" => vals[0].abs(),
                "max" => *vals.iter().max().unwrap(),
                "min" => *vals.iter().min().unwrap(),
                "plus" => vals[0] + vals[1],
                "element" => vals[0],
                _ => unreachable!(),
            };
            let y = b.var(clamp(result));
            let yv = if kind == "div" { View { v: y, s: 1, o: 0 } } else { b.view(y) };
            // move the anchor of y so that the view hits the result when that is possible
            if let Some(v) = invert(&yv, result) {
                if b.lo[y as usize] <= v && v <= b.hi[y as usize] {
                    b.anchor[y as usize] = v;
                }
            }
            out_views.push(yv);
            match kind {
                "times" => Cons::Times { a: in_views[0], b: in_views[1], c: yv },
                "div" => Cons::Div { a: in_views[0], b: in_views[1], c: yv },
                "abs" => Cons::Abs { a: in_views[0], b: yv },
                "max" => Cons::Max { xs: in_views.clone(), y: yv },
                "min" => Cons::Min { xs: in_views.clone(), y: yv },
                "plus" => Cons::Plus { a: in_views[0], b: in_views[1], c: yv },
                "element" => {
                    let idx = b.var(0);
                    b.lo[idx as usize] = 0;
                    b.hi[idx as usize] = in_views.len() as i64 - 1;
                    b.anchor[idx as usize] = 0;
                    let n = b.steps.len();
                    b.steps[n - 1] = Step::NewVarRange { lo: 0, hi: in_views.len() as i32 - 1 };
                    Cons::Element { idx: View { v: idx, s: 1, o: 0 }, xs: in_views.clone(), y: yv }
                }
                _ => unreachable!(),
            }
        }
    };
    b.steps.push(Step::Post { c: cons, tag: None });
    let nv = b.lo.len();
    let all: Vec<View> = (2..nv as u32).map(|v| View { v, s: 1, o: 0 }).collect();
    let mut bounds = all.clone();
    bounds.extend(in_views.iter().chain(out_views.iter()).filter(|x| !x.is_plain()).copied());
    b.steps.push(Step::Bounds { xs: bounds });
    // planted points: the anchor, near misses, corners, random points
    let mut points: Vec<Vec<i64>> = vec![b.anchor.clone()];
    for _ in 0..3 {
        let mut p = b.anchor.clone();
        let v = b.rng.gen_range(2..nv);
        p[v] = (p[v] + *[-1i64, 1, 2, -2].choose(&mut b.rng).unwrap()).clamp(b.lo[v], b.hi[v]);
        points.push(p);
    }
    for corner in 0..2 {
        let p: Vec<i64> = (0..nv)
            .map(|v| {
                if v < 2 {
                    1
                } else if (corner == 0) == b.rng.gen_bool(0.8) {
                    b.lo[v]
                } else {
                    b.hi[v]
                }
            })
            .collect();
        points.push(p);
    }
    {
        let p: Vec<i64> = (0..nv)
            .map(|v| if v < 2 { 1 } else { b.rng.gen_range(b.lo[v]..=b.hi[v]) })
            .collect();
        points.push(p);
    }
    points.dedup();
    for p in points {
        b.steps.push(Step::Point { vals: p[1..].iter().map(|x| *x as i32).collect() });
    }
    b.steps.push(Step::Satisfy { br: BrSpec { kind: "default".into(), var: 0, val: 0 }, stop_at: Some(400) });
    Scenario { fam: "big".into(), id: index, opts: Opts::default(), steps: b.steps, engine: false }
}
