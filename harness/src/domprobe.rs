//! Replays behaviours generated from `Domains.tla` (Gen_Domains) on the real `Assignments`
//! through the hook `verif::domain_probe` and compares every look-up with what the specification
//! printed.
use pumpkin_solver::verif;
use serde_json::json;
use serde_json::Value;

pub fn replay(behaviour: &Value, n: u64) -> Value {
    let lo = behaviour["lo"].as_i64().unwrap() as i32;
    let hi = behaviour["hi"].as_i64().unwrap() as i32;
    let ops: Vec<(String, i32)> = behaviour["ops"]
        .as_array()
        .unwrap()
        .iter()
        .map(|o| (o["op"].as_str().unwrap().to_owned(), o["k"].as_i64().unwrap() as i32))
        .collect();
    let result = std::panic::catch_unwind(|| verif::domain_probe(lo, hi, &ops));
    let probe = match result {
        Ok(p) => p,
        Err(_) => return json!({"n": n, "ok": false, "kind": "ProbePanic", "ops": behaviour["ops"]}),
    };
    let mut diffs: Vec<Value> = vec![];
    let mut cmp = |what: String, expected: Value, actual: Value| {
        if expected != actual {
            diffs.push(json!({"what": what, "expected": expected, "actual": actual}));
        }
    };
    cmp("consistent".into(), behaviour["consistent"].clone(), json!(probe.consistent));
    cmp("lb".into(), behaviour["lb"].clone(), json!(probe.lb));
    cmp("ub".into(), behaviour["ub"].clone(), json!(probe.ub));
    cmp("contains".into(), behaviour["contains"].clone(), json!(probe.contains));
    let at: Vec<Value> = probe
        .at
        .iter()
        .map(|(lb, ub, c)| json!({"lb": lb, "ub": ub, "contains": c}))
        .collect();
    cmp("at".into(), behaviour["at"].clone(), json!(at));
    let names = ["ge", "le", "ne", "eq"];
    let info: Vec<Value> = probe
        .info
        .iter()
        .map(|four| {
            let mut m = serde_json::Map::new();
            for (i, (lvl, pos)) in four.iter().enumerate() {
                let _ = m.insert(names[i].to_owned(), json!({"lvl": lvl, "pos": pos}));
            }
            Value::Object(m)
        })
        .collect();
    cmp("info".into(), behaviour["info"].clone(), json!(info));
    if diffs.is_empty() {
        json!({"n": n, "ok": true})
    } else {
        json!({"n": n, "ok": false, "kind": "LookupDiffers", "ops": behaviour["ops"], "diffs": diffs})
    }
}
