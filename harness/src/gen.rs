//! Seeded generators of scenarios. A family is a pure function of `(seed, tier, index)`.
use rand::rngs::SmallRng;
use rand::seq::SliceRandom;
use rand::Rng;
use rand::SeedableRng;

use crate::interp::*;
use crate::model::*;

#[derive(Clone, Debug)]
pub struct VarInfo {
    /// TLA+ index
    pub v: u32,
    pub vals: Vec<i32>,
    pub lit: bool,
}

#[derive(Clone, Debug)]
pub struct Params {
    pub max_vars: usize,
    pub max_width: i32,
    pub max_cons: usize,
    pub max_lits: usize,
    /// bound on the product of the domain sizes (the oracle enumerates it)
    pub max_space: u64,
    pub lo: i32,
    pub hi: i32,
}

impl Params {
    pub fn quick() -> Self {
        Params {
            max_vars: 4,
            max_width: 5,
            max_cons: 4,
            max_lits: 2,
            max_space: 1500,
            lo: -4,
            hi: 6,
        }
    }
    pub fn thorough() -> Self {
        Params {
            max_vars: 6,
            max_width: 7,
            max_cons: 6,
            max_lits: 3,
            max_space: 12000,
            lo: -5,
            hi: 8,
        }
    }
}

pub struct Gen {
    pub rng: SmallRng,
    pub p: Params,
    pub vars: Vec<VarInfo>,
    pub steps: Vec<Step>,
    pub cons: Vec<Cons>,
}

pub fn rng_for(seed: u64, fam: &str, index: u64) -> SmallRng {
    let mut h: u64 = 0xcbf29ce484222325;
    for b in fam.bytes() {
        h = (h ^ b as u64).wrapping_mul(0x100000001b3);
    }
    SmallRng::seed_from_u64(seed.wrapping_mul(0x9E3779B97F4A7C15) ^ h ^ index.wrapping_mul(0xD1B54A32D192ED03))
}

impl Gen {
    pub fn new(rng: SmallRng, p: Params) -> Self {
        Gen {
            rng,
            p,
            vars: vec![],
            steps: vec![],
            cons: vec![],
        }
    }

    fn space(&self) -> u64 {
        self.vars.iter().map(|v| v.vals.len() as u64).product()
    }

    pub fn next_index(&self) -> u32 {
        self.vars.len() as u32 + 2
    }

    pub fn add_int_var_with(&mut self, vals: Vec<i32>, sparse: bool) -> u32 {
        let v = self.next_index();
        self.vars.push(VarInfo {
            v,
            vals: vals.clone(),
            lit: false,
        });
        self.steps.push(Step::NewVar { vals, sparse });
        v
    }

    pub fn add_int_var(&mut self) -> u32 {
        let budget = (self.p.max_space / self.space().max(1)).max(1) as i32;
        let maxw = self.p.max_width.min(budget).max(1);
        let style = self.rng.gen_range(0..10);
        let w = if style == 0 { 1 } else { self.rng.gen_range(1..=maxw) };
        let lo = self.rng.gen_range(self.p.lo..=(self.p.hi - w + 1));
        let mut vals: Vec<i32> = (lo..lo + w).collect();
        let mut sparse = false;
        if style >= 7 && w >= 3 {
            // punch holes (keep the ends so the declared bounds stay)
            let span = (w + 2).min(self.p.hi - lo + 1);
            let mut all: Vec<i32> = (lo..lo + span).collect();
            all.shuffle(&mut self.rng);
            all.truncate(w as usize);
            all.sort();
            vals = all;
            sparse = true;
        } else if style == 6 {
            sparse = true;
        }
        self.add_int_var_with(vals, sparse)
    }

    pub fn add_lit(&mut self) -> u32 {
        let v = self.next_index();
        self.vars.push(VarInfo {
            v,
            vals: vec![0, 1],
            lit: true,
        });
        self.steps.push(Step::NewLit);
        v
    }

    pub fn int_vars(&self) -> Vec<u32> {
        self.vars.iter().filter(|v| !v.lit).map(|v| v.v).collect()
    }
    pub fn lit_vars(&self) -> Vec<u32> {
        self.vars.iter().filter(|v| v.lit).map(|v| v.v).collect()
    }

    pub fn info(&self, v: u32) -> &VarInfo {
        &self.vars[v as usize - 2]
    }

    pub fn view_of(&mut self, v: u32) -> View {
        match self.rng.gen_range(0..10) {
            0..=5 => View::var(v),
            6 => View { v, s: -1, o: 0 },
            7 => View {
                v,
                s: 1,
                o: self.rng.gen_range(-2..=2),
            },
            8 => View {
                v,
                s: *[-3, -2, 2, 3].choose(&mut self.rng).unwrap(),
                o: 0,
            },
            _ => View {
                v,
                s: *[-2, -1, 2].choose(&mut self.rng).unwrap(),
                o: self.rng.gen_range(-2..=2),
            },
        }
    }

    pub fn some_int_view(&mut self) -> View {
        let ivs = self.int_vars();
        let v = *ivs.choose(&mut self.rng).unwrap();
        self.view_of(v)
    }

    pub fn plain_int(&mut self) -> View {
        let ivs = self.int_vars();
        View::var(*ivs.choose(&mut self.rng).unwrap())
    }

    pub fn lit_view(&mut self) -> View {
        let ls = self.lit_vars();
        let v = *ls.choose(&mut self.rng).unwrap();
        if self.rng.gen_bool(0.5) {
            View::var(v)
        } else {
            View { v, s: -1, o: 1 }
        }
    }

    /// A random total assignment (index = TLA+ index - 1; entry 0 is the dummy).
    pub fn sample_assignment(&mut self) -> Vec<i64> {
        let mut a = vec![1i64];
        for i in 0..self.vars.len() {
            let vals = self.vars[i].vals.clone();
            a.push(*vals.choose(&mut self.rng).unwrap() as i64);
        }
        a
    }

    pub fn pred_on(&mut self, x: View) -> Pred {
        let info = self.info(x.v).clone();
        let lo = *info.vals.first().unwrap() as i64;
        let hi = *info.vals.last().unwrap() as i64;
        let a = x.s as i64 * lo + x.o as i64;
        let b = x.s as i64 * hi + x.o as i64;
        let (lo, hi) = (a.min(b), a.max(b));
        let k = self.rng.gen_range(lo - 1..=hi + 1) as i32;
        let op = *[Op::Ge, Op::Le, Op::Ne, Op::Eq].choose(&mut self.rng).unwrap();
        Pred { x, op, k }
    }

    pub fn some_pred(&mut self) -> Pred {
        let all: Vec<u32> = self.vars.iter().map(|v| v.v).collect();
        let v = *all.choose(&mut self.rng).unwrap();
        let x = if self.info(v).lit || self.rng.gen_bool(0.7) {
            View::var(v)
        } else {
            self.view_of(v)
        };
        self.pred_on(x)
    }

    fn distinct_views(&mut self, n: usize) -> Vec<View> {
        let mut ivs = self.int_vars();
        ivs.shuffle(&mut self.rng);
        let mut out = vec![];
        for i in 0..n {
            let v = ivs[i % ivs.len()];
            out.push(self.view_of(v));
        }
        out
    }

    /// A random constraint of kind `kind` (see `KINDS`), steered to be neither trivially true nor
    /// trivially false where that is cheap to do.
    pub fn cons_of_kind(&mut self, kind: &str) -> Cons {
        let a = self.sample_assignment();
        let slack = |g: &mut Gen| g.rng.gen_range(-1..=1);
        match kind {
            "lin_le" | "lin_eq" | "lin_ne" => {
                let n = self.rng.gen_range(1..=3.min(self.int_vars().len().max(1)));
                let terms = self.distinct_views(n);
                let sum: i64 = terms.iter().map(|t| t.eval(&a)).sum();
                let rhs = (sum + slack(self) as i64) as i32;
                match kind {
                    "lin_le" => Cons::LinLe { terms, rhs },
                    "lin_eq" => Cons::LinEq { terms, rhs },
                    _ => Cons::LinNe { terms, rhs },
                }
            }
            "bin_le" | "bin_lt" | "bin_eq" | "bin_ne" => {
                let xs = self.distinct_views(2);
                let (a, b) = (xs[0], xs[1]);
                match kind {
                    "bin_le" => Cons::BinLe { a, b },
                    "bin_lt" => Cons::BinLt { a, b },
                    "bin_eq" => Cons::BinEq { a, b },
                    _ => Cons::BinNe { a, b },
                }
            }
            "plus" => {
                let xs = self.distinct_views(3);
                Cons::Plus {
                    a: xs[0],
                    b: xs[1],
                    c: xs[2],
                }
            }
            "times" => {
                let xs = self.distinct_views(3);
                Cons::Times {
                    a: xs[0],
                    b: xs[1],
                    c: xs[2],
                }
            }
            "div" => {
                // the denominator must not contain 0 (documented precondition)
                let xs = self.distinct_views(3);
                let mut b = xs[1];
                let info = self.info(b.v).clone();
                let has_zero = |b: &View| info.vals.iter().any(|x| b.s * x + b.o == 0);
                if has_zero(&b) {
                    b = View { v: b.v, s: 1, o: 0 };
                    if has_zero(&b) {
                        let shift = 1 - *info.vals.first().unwrap();
                        b = View {
                            v: b.v,
                            s: 1,
                            o: shift,
                        };
                    }
                }
                Cons::Div {
                    a: xs[0],
                    b,
                    c: xs[2],
                }
            }
            "abs" => {
                let xs = self.distinct_views(2);
                Cons::Abs { a: xs[0], b: xs[1] }
            }
            "max" | "min" => {
                let n = self.rng.gen_range(1..=3.min(self.int_vars().len()));
                let xs = self.distinct_views(n);
                let y = self.some_int_view();
                if kind == "max" {
                    Cons::Max { xs, y }
                } else {
                    Cons::Min { xs, y }
                }
            }
            "element" => {
                let n = self.rng.gen_range(1..=3);
                let xs = self.distinct_views(n);
                let mut y = self.some_int_view();
                // an index view whose range overlaps 0..n
                let mut iv = self.plain_int();
                // the index variable also occurring as an element or as the right-hand side is
                // valid but rare input (see known finding F16): keep it rare
                if self.rng.gen_range(0..10) != 0 {
                    let used: Vec<u32> = xs.iter().map(|x| x.v).collect();
                    let free: Vec<u32> = self
                        .int_vars()
                        .into_iter()
                        .filter(|v| !used.contains(v))
                        .collect();
                    if let Some(v) = free.choose(&mut self.rng) {
                        iv = View::var(*v);
                        let others: Vec<u32> =
                            self.int_vars().into_iter().filter(|w| w != v).collect();
                        if y.v == *v {
                            if let Some(w) = others.choose(&mut self.rng) {
                                y = View { v: *w, ..y };
                            }
                        }
                    }
                }
                let lo = *self.info(iv.v).vals.first().unwrap();
                let idx = View {
                    v: iv.v,
                    s: 1,
                    o: -lo + self.rng.gen_range(-1..=0),
                };
                Cons::Element { idx, xs, y }
            }
            "alldiff" => {
                let n = self.rng.gen_range(2..=3.max(2).min(self.int_vars().len().max(2)));
                let xs = self.distinct_views(n);
                Cons::Alldiff { xs }
            }
            "cumulative" => {
                let n = self.rng.gen_range(1..=3.min(self.int_vars().len()));
                let s = self.distinct_views(n);
                let d: Vec<i32> = (0..n).map(|_| self.rng.gen_range(0..=3)).collect();
                let r: Vec<i32> = (0..n).map(|_| self.rng.gen_range(0..=3)).collect();
                let cap = self.rng.gen_range(0..=4);
                let all = CumOpts::all();
                let opts = *all.choose(&mut self.rng).unwrap();
                Cons::Cumulative { s, d, r, cap, opts }
            }
            "bool_lin_le" => {
                let n = self.rng.gen_range(1..=self.lit_vars().len().min(3));
                let bs: Vec<View> = (0..n).map(|_| self.lit_view()).collect();
                let ws: Vec<i32> = (0..n)
                    .map(|_| *[-2, -1, 1, 2, 3].choose(&mut self.rng).unwrap())
                    .collect();
                let sum: i64 = bs.iter().zip(&ws).map(|(b, w)| b.eval(&a) * *w as i64).sum();
                Cons::BoolLinLe {
                    ws,
                    bs,
                    rhs: (sum + slack(self) as i64) as i32,
                }
            }
            "bool_lin_eq" => {
                let n = self.rng.gen_range(1..=self.lit_vars().len().min(3));
                let bs: Vec<View> = (0..n).map(|_| self.lit_view()).collect();
                let ws: Vec<i32> = (0..n)
                    .map(|_| *[-2, -1, 1, 2, 3].choose(&mut self.rng).unwrap())
                    .collect();
                let y = self.plain_int();
                Cons::BoolLinEq { ws, bs, y }
            }
            "clause" => {
                let n = self.rng.gen_range(1..=3);
                let ps: Vec<Pred> = (0..n).map(|_| self.some_pred()).collect();
                Cons::Clause { ps }
            }
            "lit_clause" | "lit_conj" => {
                let n = self.rng.gen_range(1..=self.lit_vars().len().min(3));
                let ls: Vec<View> = (0..n).map(|_| self.lit_view()).collect();
                if kind == "lit_clause" {
                    Cons::LitClause { ls }
                } else {
                    Cons::LitConj { ls }
                }
            }
            other => panic!("harness: unknown kind {other}"),
        }
    }

    pub fn base_kinds(&self) -> Vec<&'static str> {
        let mut ks = vec![
            "lin_le", "lin_le", "lin_eq", "lin_ne", "bin_le", "bin_lt", "bin_eq", "bin_ne", "plus",
            "times", "div", "abs", "max", "min", "element", "alldiff", "cumulative", "clause",
            "clause",
        ];
        if !self.lit_vars().is_empty() {
            ks.extend(["bool_lin_le", "bool_lin_eq", "lit_clause", "lit_conj"]);
        }
        ks
    }

    pub fn random_cons(&mut self) -> Cons {
        let ks = self.base_kinds();
        let k = *ks.choose(&mut self.rng).unwrap();
        let c = self.cons_of_kind(k);
        self.wrap(c)
    }

    /// Possibly wraps `c` in (half-)reification or negation.
    pub fn wrap(&mut self, c: Cons) -> Cons {
        if matches!(c, Cons::Clause { .. }) {
            return c;
        }
        let has_lits = !self.lit_vars().is_empty();
        let roll = self.rng.gen_range(0..10);
        if roll < 6 {
            c
        } else if roll == 6 && c.is_negatable() {
            Cons::Neg { c: Box::new(c) }
        } else if roll <= 8 && has_lits {
            let r = self.lit_view();
            Cons::Imp { r, c: Box::new(c) }
        } else if has_lits && c.is_negatable() {
            let r = self.lit_view();
            Cons::Reif { r, c: Box::new(c) }
        } else {
            c
        }
    }

    pub fn all_views_for_bounds(&mut self) -> Vec<View> {
        let mut xs: Vec<View> = self.vars.iter().map(|v| View::var(v.v)).collect();
        let ivs = self.int_vars();
        if !ivs.is_empty() {
            for _ in 0..2 {
                let v = *ivs.choose(&mut self.rng).unwrap();
                let x = self.view_of(v);
                if !x.is_plain() {
                    xs.push(x);
                }
            }
        }
        xs
    }

    /// Declares variables and posts `n` random constraints (optionally with bound queries after
    /// every step).
    pub fn build_model(&mut self, ncons: usize, with_bounds: bool) {
        let nv = self.rng.gen_range(2..=self.p.max_vars);
        for _ in 0..nv {
            let _ = self.add_int_var();
        }
        let nl = self.rng.gen_range(0..=self.p.max_lits);
        for _ in 0..nl {
            if self.space() * 2 <= self.p.max_space * 2 {
                let _ = self.add_lit();
            }
        }
        if with_bounds {
            let xs = self.all_views_for_bounds();
            self.steps.push(Step::Bounds { xs });
        }
        for _ in 0..ncons {
            let c = self.random_cons();
            self.post(c, with_bounds);
        }
    }

    pub fn post(&mut self, c: Cons, with_bounds: bool) {
        self.cons.push(c.clone());
        self.steps.push(Step::Post { c, tag: None });
        if with_bounds {
            let xs = self.all_views_for_bounds();
            self.steps.push(Step::Bounds { xs });
        }
    }

    pub fn random_brancher(&mut self) -> BrSpec {
        match self.rng.gen_range(0..10) {
            0..=3 => BrSpec {
                kind: "default".into(),
                var: 0,
                val: 0,
            },
            4..=7 => BrSpec {
                kind: "indep".into(),
                var: self.rng.gen_range(0..NUM_VAR_SEL),
                val: self.rng.gen_range(0..NUM_VAL_SEL),
            },
            8 => BrSpec {
                kind: "alt".into(),
                var: self.rng.gen_range(0..NUM_VAR_SEL),
                val: self.rng.gen_range(0..(NUM_VAL_SEL * 4)),
            },
            _ => BrSpec {
                kind: "dyn".into(),
                var: self.rng.gen_range(0..NUM_VAR_SEL),
                val: self.rng.gen_range(0..NUM_VAL_SEL),
            },
        }
    }

    pub fn random_opts(&mut self) -> Opts {
        let mut o = Opts {
            seed: self.rng.gen_range(0..1000),
            ..Opts::default()
        };
        if self.rng.gen_bool(0.25) {
            o.resolver = "nolearn".into();
        }
        o.minimise = self.rng.gen_bool(0.6);
        match self.rng.gen_range(0..6) {
            0 => o.restart = "off".into(),
            1 => {}
            2 => {
                o.restart = "const".into();
                o.restart_base = self.rng.gen_range(1..=3);
                o.restart_min_conflicts = 0;
            }
            3 => {
                o.restart = "luby".into();
                o.restart_base = self.rng.gen_range(1..=2);
                o.restart_min_conflicts = self.rng.gen_range(0..=2);
            }
            4 => {
                o.restart = "geom".into();
                o.restart_base = self.rng.gen_range(1..=2);
                o.restart_min_conflicts = 0;
            }
            _ => {
                o.restart = "const".into();
                o.restart_base = 1;
                o.restart_min_conflicts = 0;
            }
        }
        if self.rng.gen_bool(0.6) {
            o.high_lbd_limit = *[0usize, 1, 2, 4].choose(&mut self.rng).unwrap();
            o.lbd_threshold = *[0u32, 0, 0, 1, 5].choose(&mut self.rng).unwrap();
        }
        if self.rng.gen_bool(0.5) {
            o.sorting = "activity".into();
        }
        o
    }
}

pub fn params(tier: &str) -> Params {
    if tier == "thorough" {
        Params::thorough()
    } else {
        Params::quick()
    }
}

/// `solve`: model + one satisfy (C01, C02, C17, C18, C12).
pub fn fam_solve(seed: u64, tier: &str, index: u64) -> Scenario {
    let mut g = Gen::new(rng_for(seed, "solve", index), params(tier));
    let ncons = g.rng.gen_range(1..=g.p.max_cons);
    g.build_model(ncons, true);
    let br = g.random_brancher();
    g.steps.push(Step::Satisfy { br, stop_at: None });
    let opts = g.random_opts();
    Scenario {
        fam: "solve".into(),
        id: index,
        opts,
        steps: g.steps,
        engine: true,
    }
}

/// `iterate`: model + full iteration (C03), afterwards one more satisfy.
pub fn fam_iterate(seed: u64, tier: &str, index: u64) -> Scenario {
    let mut g = Gen::new(rng_for(seed, "iterate", index), params(tier));
    g.p.max_space = g.p.max_space.min(600);
    let ncons = g.rng.gen_range(1..=g.p.max_cons);
    g.build_model(ncons, false);
    let br = g.random_brancher();
    g.steps.push(Step::Iterate {
        br,
        max: 100000,
        stop_at: None,
        resume: false,
    });
    let opts = g.random_opts();
    Scenario {
        fam: "iterate".into(),
        id: index,
        opts,
        steps: g.steps,
        engine: index % 2 == 0,
    }
}

/// `optimise`: model + optimise over a variable or a view (C04).
pub fn fam_optimise(seed: u64, tier: &str, index: u64) -> Scenario {
    let mut g = Gen::new(rng_for(seed, "optimise", index), params(tier));
    let ncons = g.rng.gen_range(0..=g.p.max_cons);
    g.build_model(ncons, false);
    let br = g.random_brancher();
    let obj = if g.rng.gen_bool(0.5) {
        g.plain_int()
    } else {
        g.some_int_view()
    };
    let lus = g.rng.gen_bool(0.5);
    g.steps.push(Step::Optimise {
        br,
        maximise: g.rng.gen_bool(0.5),
        lus,
        obj,
        stop_at: None,
    });
    // a second optimisation on the same solver (another objective, direction, procedure). Only
    // after LinearUnsatSat: LinearSatUnsat leaves its bound behind (known finding F2), after which
    // a second optimum is no longer one of the model the user posted.
    if lus && g.rng.gen_bool(0.4) {
        let br = g.random_brancher();
        let obj = g.some_int_view();
        g.steps.push(Step::Optimise {
            br,
            maximise: g.rng.gen_bool(0.5),
            lus: g.rng.gen_bool(0.5),
            obj,
            stop_at: None,
        });
    }
    let opts = g.random_opts();
    Scenario {
        fam: "optimise".into(),
        id: index,
        opts,
        steps: g.steps,
        engine: index % 2 == 0,
    }
}

/// `assume`: model + a sequence of assumption solves with and without core extraction, followed
/// by a plain satisfy (C05).
pub fn fam_assume(seed: u64, tier: &str, index: u64) -> Scenario {
    let mut g = Gen::new(rng_for(seed, "assume", index), params(tier));
    let ncons = g.rng.gen_range(1..=g.p.max_cons);
    g.build_model(ncons, false);
    let rounds = g.rng.gen_range(1..=3);
    for _ in 0..rounds {
        let n = g.rng.gen_range(0..=3);
        let mut assum: Vec<Pred> = (0..n).map(|_| g.some_pred()).collect();
        if n >= 1 && g.rng.gen_bool(0.15) {
            // duplicate or contradict an earlier assumption
            let p = assum[0];
            assum.push(if g.rng.gen_bool(0.5) { p } else { p.negated() });
        }
        let br = g.random_brancher();
        // now and then the assumption solve is interrupted (also before its first decision); the
        // assumptions must not leak into the solves that follow
        let stop_at = if g.rng.gen_bool(0.2) { Some(g.rng.gen_range(0..4)) } else { None };
        g.steps.push(Step::AssumeSolve {
            br,
            assum,
            core: g.rng.gen_bool(0.7),
            stop_at,
        });
    }
    let br = g.random_brancher();
    g.steps.push(Step::Satisfy { br, stop_at: None });
    let mut opts = g.random_opts();
    // core extraction needs the learning resolver's data structures
    if g.rng.gen_bool(0.8) {
        opts.resolver = "uip".into();
    }
    Scenario {
        fam: "assume".into(),
        id: index,
        opts,
        steps: g.steps,
        engine: index % 2 == 0,
    }
}

/// `history`: interleaves declarations, posts, queries and solves of every kind (C10, C12).
pub fn fam_history(seed: u64, tier: &str, index: u64) -> Scenario {
    let mut g = Gen::new(rng_for(seed, "history", index), params(tier));
    g.p.max_space = g.p.max_space.min(800);
    let nv = g.rng.gen_range(1..=2);
    for _ in 0..nv {
        let _ = g.add_int_var();
    }
    let len = if tier == "thorough" {
        g.rng.gen_range(4..=10)
    } else {
        g.rng.gen_range(3..=6)
    };
    for _ in 0..len {
        match g.rng.gen_range(0..12) {
            0 | 1 => {
                if g.vars.len() < g.p.max_vars + 1 {
                    if g.rng.gen_bool(0.7) {
                        let _ = g.add_int_var();
                    } else {
                        let _ = g.add_lit();
                    }
                }
            }
            2..=4 => {
                let c = g.random_cons();
                g.post(c, true);
            }
            5 | 6 => {
                let br = g.random_brancher();
                g.steps.push(Step::Satisfy { br, stop_at: None });
            }
            7 => {
                let n = g.rng.gen_range(0..=2);
                let assum: Vec<Pred> = (0..n).map(|_| g.some_pred()).collect();
                let br = g.random_brancher();
                g.steps.push(Step::AssumeSolve {
                    br,
                    assum,
                    core: g.rng.gen_bool(0.5),
                    stop_at: None,
                });
            }
            8 => {
                let br = g.random_brancher();
                let max = g.rng.gen_range(1..=3);
                g.steps.push(Step::Iterate {
                    br,
                    max,
                    stop_at: None,
                    resume: false,
                });
            }
            9 => {
                let br = g.random_brancher();
                let obj = g.some_int_view();
                g.steps.push(Step::Optimise {
                    br,
                    maximise: g.rng.gen_bool(0.5),
                    lus: g.rng.gen_bool(0.5),
                    obj,
                    stop_at: None,
                });
            }
            10 => {
                let br = g.random_brancher();
                let stop_at = Some(g.rng.gen_range(0..4));
                g.steps.push(Step::Satisfy { br, stop_at });
            }
            _ => {
                let xs = g.all_views_for_bounds();
                g.steps.push(Step::Bounds { xs });
            }
        }
    }
    let br = g.random_brancher();
    g.steps.push(Step::Satisfy { br, stop_at: None });
    let opts = g.random_opts();
    Scenario {
        fam: "history".into(),
        id: index,
        opts,
        steps: g.steps,
        engine: index % 3 == 0,
    }
}

/// `cumulative`: a task set posted under one of the 144 option combinations (index-driven so
/// that every combination is visited), plainly or half-reified, all solutions iterated (C08).
pub fn fam_cumulative(seed: u64, tier: &str, index: u64) -> Scenario {
    let mut g = Gen::new(rng_for(seed, "cumulative", index), params(tier));
    let ntasks = g.rng.gen_range(1..=if tier == "thorough" { 4 } else { 3 });
    let mut starts = vec![];
    let mut space = 1u64;
    for _ in 0..ntasks {
        let w = g.rng.gen_range(1..=4);
        let lo = g.rng.gen_range(-3..=(6 - w + 1));
        let mut vals: Vec<i32> = (lo..lo + w).collect();
        let mut sparse = false;
        if w >= 3 && g.rng.gen_bool(0.3) {
            let _ = vals.remove(g.rng.gen_range(1..(w as usize - 1)));
            sparse = true;
        }
        space *= vals.len() as u64;
        let v = g.add_int_var_with(vals, sparse);
        let x = match g.rng.gen_range(0..6) {
            0 => View { v, s: -1, o: g.rng.gen_range(-1..=2) },
            1 => View { v, s: 1, o: g.rng.gen_range(-2..=2) },
            2 => View { v, s: 2, o: 0 },
            _ => View::var(v),
        };
        starts.push(x);
    }
    let _ = space;
    // sometimes the same task twice
    if ntasks >= 2 && g.rng.gen_bool(0.15) {
        starts[1] = starts[0];
    }
    let d: Vec<i32> = (0..ntasks).map(|_| g.rng.gen_range(0..=3)).collect();
    let r: Vec<i32> = (0..ntasks).map(|_| g.rng.gen_range(0..=3)).collect();
    let cap = g.rng.gen_range(0..=4);
    let all = CumOpts::all();
    let opts = all[(index as usize) % all.len()];
    let c = Cons::Cumulative { s: starts, d, r, cap, opts };
    let reified = g.rng.gen_range(0..4) == 0;
    if reified {
        let l = g.add_lit();
        let r = if g.rng.gen_bool(0.5) { View::var(l) } else { View { v: l, s: -1, o: 1 } };
        g.post(Cons::Imp { r, c: Box::new(c) }, false);
    } else {
        g.post(c, false);
    }
    // optionally a side constraint so that search has to backtrack
    if g.rng.gen_bool(0.5) {
        let k = *["lin_le", "lin_ne", "bin_lt", "alldiff"].choose(&mut g.rng).unwrap();
        let c2 = g.cons_of_kind(k);
        g.post(c2, false);
    }
    let br = g.random_brancher();
    g.steps.push(Step::Iterate { br, max: 100000, stop_at: None, resume: false });
    let mut opts = g.random_opts();
    if opts.restart_base <= 3 && opts.high_lbd_limit <= 4 {
        opts.high_lbd_limit = 4000;
    }
    Scenario { fam: "cumulative".into(), id: index, opts, steps: g.steps, engine: true }
}

/// `cumulative2` (C08): the interaction patterns the single-constraint family does not reach.
/// Variant A (even index): 4-5 tasks of short duration on a small capacity with narrow start
/// ranges, some of them fixed by unary clauses AFTER the cumulative was posted, and a long task
/// declared last that spans the others (profiles separated by small gaps get bridged).
/// Variant B (odd index): 2-3 tasks plus 2-3 zero-one switches, each switch forcing several
/// tasks onto bounds through binary clauses; with input order the same overload is derived again
/// after every backtrack. All solutions are iterated; the option combination is index-driven.
pub fn fam_cumulative2(seed: u64, tier: &str, index: u64) -> Scenario {
    let mut g = Gen::new(rng_for(seed, "cumulative2", index), params(tier));
    let all = CumOpts::all();
    let copts = all[((index / 2) as usize) % all.len()];
    let mut starts: Vec<View> = vec![];
    let (d, r, cap);
    let mut order: Vec<u32> = vec![];
    if index % 2 == 0 {
        // all start ranges are wide: nothing is mandatory when the constraint is posted, the
        // time-table grows incrementally while unary clauses fix the tasks one after the other
        let nshort = g.rng.gen_range(2..=3);
        let horizon = 6;
        let mut dd = vec![];
        let mut rr = vec![];
        let mut fix: Vec<(View, i32)> = vec![];
        let mut at = g.rng.gen_range(0..=2);
        let first = at;
        for _ in 0..nshort {
            // (ranges are kept narrow for the oracle's sake, but wider than the duration)
            at = at.min(horizon);
            let v = g.add_int_var_with(((at - 1).max(0)..=(at + 1).min(horizon)).collect(), false);
            let x = View::var(v);
            starts.push(x);
            let dur = g.rng.gen_range(1..=2);
            dd.push(dur);
            rr.push(1);
            fix.push((x, at.min(horizon)));
            at += dur + g.rng.gen_range(0..=2); // gaps of 0, 1 or 2 time-points between the parts
        }
        // the spanning task: covers the short ones (and the gaps between them)
        let span = (at - first).clamp(2, 5) - g.rng.gen_range(0..=1);
        let sfix = (first - g.rng.gen_range(0..=1)).max(0);
        let slo = (sfix - g.rng.gen_range(0..=span)).max(0);
        let v = g.add_int_var_with((slo..=(slo + span).min(horizon)).collect(), false);
        let x = View::var(v);
        starts.push(x);
        dd.push(span);
        rr.push(1);
        fix.push((x, sfix.min((slo + span).min(horizon))));
        // the probe: uses the whole capacity, so it fits only where nothing else runs
        let probe = g.add_int_var_with((0..=horizon).collect(), false);
        starts.push(View::var(probe));
        dd.push(1);
        cap = 2;
        rr.push(2);
        d = dd;
        r = rr;
        // declaration order of the tasks is shuffled, the order of fixing is not
        let mut perm: Vec<usize> = (0..starts.len()).collect();
        if g.rng.gen_bool(0.5) {
            perm.shuffle(&mut g.rng);
        }
        let s2: Vec<View> = perm.iter().map(|k| starts[*k]).collect();
        let d2: Vec<i32> = perm.iter().map(|k| d[*k]).collect();
        let r2: Vec<i32> = perm.iter().map(|k| r[*k]).collect();
        g.post(Cons::Cumulative { s: s2, d: d2, r: r2, cap, opts: copts }, false);
        if g.rng.gen_bool(0.3) {
            let n = fix.len();
            fix.swap(n - 1, n - 2);
        }
        for (x, k) in fix {
            if g.rng.gen_bool(0.9) {
                g.post(Cons::Clause { ps: vec![Pred { x, op: Op::Eq, k }] }, false);
            }
        }
    } else {
        let nt = g.rng.gen_range(2..=3);
        let ns = g.rng.gen_range(2..=3);
        let mut sw = vec![];
        for _ in 0..ns {
            sw.push(g.add_int_var_with(vec![0, 1], false));
        }
        let mut dd = vec![];
        let mut rr = vec![];
        for _ in 0..nt {
            let w = g.rng.gen_range(4..=6);
            let v = g.add_int_var_with((0..w).collect(), false);
            starts.push(View::var(v));
            dd.push(g.rng.gen_range(1..=3));
            rr.push(1);
        }
        d = dd;
        r = rr;
        cap = if nt == 3 && g.rng.gen_bool(0.5) { 2 } else { 1 };
        g.post(Cons::Cumulative { s: starts.clone(), d, r, cap, opts: copts }, false);
        // one overloading configuration (every task pushed onto the same end of its range); most
        // switches force exactly this configuration, so the same overload is derived repeatedly
        let low = g.rng.gen_bool(0.6);
        let config: Vec<Pred> = starts
            .iter()
            .map(|x| {
                let hi = *g.info(x.v).vals.last().unwrap();
                if low { Pred { x: *x, op: Op::Le, k: 0 } } else { Pred { x: *x, op: Op::Ge, k: hi } }
            })
            .collect();
        for s_ in sw.iter() {
            let on = g.rng.gen_bool(0.8);
            let guard = Pred { x: View::var(*s_), op: if on { Op::Le } else { Op::Ge }, k: if on { 0 } else { 1 } };
            let same = g.rng.gen_bool(0.75);
            for (t, x) in starts.clone().iter().enumerate() {
                let p = if same {
                    config[t]
                } else {
                    let hi = *g.info(x.v).vals.last().unwrap();
                    match g.rng.gen_range(0..3) {
                        0 => Pred { x: *x, op: Op::Le, k: g.rng.gen_range(0..=1) },
                        1 => Pred { x: *x, op: Op::Ge, k: hi - g.rng.gen_range(0..=1) },
                        _ => Pred { x: *x, op: Op::Eq, k: g.rng.gen_range(0..=hi) },
                    }
                };
                if same || g.rng.gen_bool(0.8) {
                    g.post(Cons::Clause { ps: vec![guard, p] }, false);
                }
            }
        }
        order = sw;
    }
    let _ = order;
    // input order (switches first) with a fixed value selector, or any brancher
    let br = match g.rng.gen_range(0..3) {
        0 => BrSpec { kind: "indep".into(), var: 2, val: 1 },
        1 => BrSpec { kind: "indep".into(), var: 2, val: g.rng.gen_range(0..NUM_VAL_SEL) },
        _ => g.random_brancher(),
    };
    g.steps.push(Step::Iterate { br, max: 100000, stop_at: None, resume: false });
    let mut opts = if g.rng.gen_bool(0.5) { Opts::default() } else { g.random_opts() };
    if opts.restart_base <= 3 && opts.high_lbd_limit <= 4 {
        opts.high_lbd_limit = 4000;
    }
    Scenario { fam: "cumulative2".into(), id: index, opts, steps: g.steps, engine: index % 3 == 0 }
}

/// `cumulative3` (C08): a half-reified cumulative whose literal is decided AFTER the start
/// times. While the literal is unassigned the wrapped propagator is notified of every bound
/// change but never propagates; blocking clauses of the solution iteration then make the literal
/// true by propagation after a backjump, and the wrapped propagator has to see every mandatory
/// part that arose in the meantime (found by the thorough tier: the incremental time-tables
/// dropped such updates when backtracking was not incremental). Tight capacities, 1-3 tasks,
/// input order (starts, literal, free variables) or any brancher; the option combination is
/// index-driven; all solutions are iterated.
pub fn fam_cumulative3(seed: u64, tier: &str, index: u64) -> Scenario {
    let mut g = Gen::new(rng_for(seed, "cumulative3", index), params(tier));
    let all = CumOpts::all();
    let copts = all[(index as usize) % all.len()];
    let ntasks = g.rng.gen_range(1..=3);
    let mut starts = vec![];
    for _ in 0..ntasks {
        let w = g.rng.gen_range(2..=3);
        let lo = g.rng.gen_range(-1..=2);
        let v = g.add_int_var_with((lo..lo + w).collect(), false);
        let x = match g.rng.gen_range(0..5) {
            0 => View { v, s: 1, o: g.rng.gen_range(-2..=1) },
            1 => View { v, s: -1, o: g.rng.gen_range(1..=3) },
            _ => View::var(v),
        };
        starts.push(x);
    }
    let d: Vec<i32> = (0..ntasks).map(|_| g.rng.gen_range(1..=3)).collect();
    let r: Vec<i32> = (0..ntasks).map(|_| g.rng.gen_range(1..=2)).collect();
    // a single task is given a usage above the capacity, several tasks overload together
    let cap = if ntasks == 1 { g.rng.gen_range(0..=1) } else { g.rng.gen_range(0..=2) };
    let l = g.add_lit();
    let pos = g.rng.gen_bool(0.5);
    let rv = if pos { View::var(l) } else { View { v: l, s: -1, o: 1 } };
    // free variables declared last: the conflicts with blocking clauses happen below the literal
    let nfree = g.rng.gen_range(1..=2);
    for _ in 0..nfree {
        let w = g.rng.gen_range(2..=3);
        let _ = g.add_int_var_with((0..w).collect(), false);
    }
    g.post(Cons::Imp { r: rv, c: Box::new(Cons::Cumulative { s: starts, d, r, cap, opts: copts }) }, false);
    if g.rng.gen_bool(0.3) {
        let k = *["lin_le", "lin_ne", "bin_lt"].choose(&mut g.rng).unwrap();
        let c2 = g.cons_of_kind(k);
        g.post(c2, false);
    }
    // the value selector that tries the inactive polarity of the literal first (in-domain min for
    // a positive literal, max for a negated one), or any value selector / brancher
    let br = match g.rng.gen_range(0..4) {
        0 | 1 => BrSpec { kind: "indep".into(), var: 2, val: if pos { 4 } else { 1 } },
        2 => BrSpec { kind: "indep".into(), var: 2, val: g.rng.gen_range(0..NUM_VAL_SEL) },
        _ => g.random_brancher(),
    };
    g.steps.push(Step::Iterate { br, max: 100000, stop_at: None, resume: false });
    let mut opts = if g.rng.gen_bool(0.5) { Opts::default() } else { g.random_opts() };
    if opts.restart_base <= 3 && opts.high_lbd_limit <= 4 {
        opts.high_lbd_limit = 4000;
    }
    Scenario { fam: "cumulative3".into(), id: index, opts, steps: g.steps, engine: index % 3 == 0 }
}

/// Solves n-queens by backtracking (first solution in lexicographic order after a seeded rotation).
fn queens_solution(n: usize, first: usize) -> Vec<i32> {
    fn go(n: usize, row: usize, first: usize, q: &mut Vec<i32>) -> bool {
        if row == n {
            return true;
        }
        for k in 0..n {
            let c = ((k + if row == 0 { first } else { 0 }) % n) as i32;
            if (0..row).all(|r| q[r] != c && (q[r] - c).abs() != (row - r) as i32) {
                q.push(c);
                if go(n, row + 1, first, q) {
                    return true;
                }
                let _ = q.pop();
            }
        }
        false
    }
    let mut q = vec![];
    let ok = go(n, 0, first, &mut q);
    assert!(ok, "harness: no queens solution");
    q
}

/// `planted_chain` (C02, C01): implication chains y_0 -> y_1 -> ... -> y_L over 0-1 variables,
/// longer than the recursion limit (500) of the recursive nogood minimiser in a third of the
/// scenarios, next to a small random clause gadget over the chain ends and a few extra variables.
/// The all-zero chains with a random gadget assignment are planted solutions (every gadget clause
/// is generated with one literal true under it). Input order with the largest value first sets a
/// whole chain by one decision; the conflicts of the gadget then have reasons as deep as the chain.
pub fn fam_planted_chain(seed: u64, tier: &str, index: u64) -> Scenario {
    let mut g = Gen::new(rng_for(seed, "planted_chain", index), params(tier));
    let nchains = g.rng.gen_range(1..=2);
    let mut ends: Vec<u32> = vec![];
    let mut witness: Vec<i32> = vec![1];
    let mut chains: Vec<Vec<u32>> = vec![];
    for _ in 0..nchains {
        let len = match index % 3 {
            0 => g.rng.gen_range(520..=700),
            1 => g.rng.gen_range(40..=200),
            _ => g.rng.gen_range(3..=30),
        };
        let ys: Vec<u32> = (0..=len).map(|_| g.add_int_var_with(vec![0, 1], false)).collect();
        for _ in 0..=len {
            witness.push(0);
        }
        ends.push(*ys.last().unwrap());
        chains.push(ys);
    }
    let nextra = g.rng.gen_range(3..=6);
    let mut extra: Vec<u32> = vec![];
    for _ in 0..nextra {
        extra.push(g.add_int_var_with(vec![0, 1], false));
        witness.push(g.rng.gen_range(0..=1));
    }
    for ys in chains.iter() {
        for w in ys.windows(2) {
            g.post(
                Cons::Clause {
                    ps: vec![
                        Pred { x: View::var(w[0]), op: Op::Le, k: 0 },
                        Pred { x: View::var(w[1]), op: Op::Ge, k: 1 },
                    ],
                },
                false,
            );
        }
    }
    // the gadget: the planted values of the extra variables are implied one after the other from
    // the first one, which is itself forced (both values of a helper refute its complement), and a
    // few random clauses over chain ends and extras that hold under the planted assignment
    let lit = |v: u32, val: i32| Pred { x: View::var(v), op: if val == 1 { Op::Ge } else { Op::Le }, k: val };
    let wv = |w: &Vec<i32>, v: u32| w[(v - 1) as usize];
    for k in 1..extra.len() {
        // extra[0] = planted -> extra[k] = planted
        let a = lit(extra[0], 1 - wv(&witness, extra[0]));
        let b = lit(extra[k], wv(&witness, extra[k]));
        if g.rng.gen_bool(0.7) {
            g.post(Cons::Clause { ps: vec![a, b] }, false);
        }
    }
    // the conflict: chain end = 1 together with the planted extras is forbidden
    for e in ends.clone() {
        let mut ps = vec![lit(e, 0)];
        let k = g.rng.gen_range(1..=2.min(extra.len()));
        for x in extra.iter().skip(1).take(k) {
            ps.push(lit(*x, 1 - wv(&witness, *x)));
        }
        g.post(Cons::Clause { ps }, false);
    }
    // the complement of extra[0] is impossible, which only propagation finds out
    let helper = g.add_int_var_with(vec![0, 1], false);
    witness.push(g.rng.gen_range(0..=1));
    let keep = lit(extra[0], wv(&witness, extra[0]));
    g.post(Cons::Clause { ps: vec![keep, lit(helper, 1)] }, false);
    g.post(Cons::Clause { ps: vec![keep, lit(helper, 0)] }, false);
    for _ in 0..g.rng.gen_range(0..=4) {
        let mut pool: Vec<u32> = extra.clone();
        pool.extend(ends.iter().copied());
        pool.shuffle(&mut g.rng);
        let n = g.rng.gen_range(2..=3.min(pool.len()));
        let mut ps: Vec<Pred> = pool[..n].iter().map(|v| lit(*v, g.rng.gen_range(0..=1))).collect();
        // one literal true under the planted assignment
        ps[0] = lit(pool[0], wv(&witness, pool[0]));
        g.post(Cons::Clause { ps }, false);
    }
    g.steps.push(Step::Witness { vals: witness });
    let br = match g.rng.gen_range(0..4) {
        0 | 1 => BrSpec { kind: "indep".into(), var: 2, val: 1 },
        2 => BrSpec { kind: "indep".into(), var: 2, val: g.rng.gen_range(0..NUM_VAL_SEL) },
        _ => g.random_brancher(),
    };
    g.steps.push(Step::Satisfy { br, stop_at: None });
    let mut opts = if g.rng.gen_bool(0.6) { Opts::default() } else { g.random_opts() };
    opts.minimise = opts.minimise || g.rng.gen_bool(0.7);
    if opts.restart_base <= 3 && opts.high_lbd_limit <= 4 {
        opts.high_lbd_limit = 4000;
    }
    // chronological backtracking without learning does not finish on models of this size within
    // the harness' poll cap (it is exercised by the small families)
    opts.resolver = "uip".into();
    Scenario { fam: "planted_chain".into(), id: index, opts, steps: g.steps, engine: false }
}

/// `planted_queens` (C01, C07, C18): 2-4 independent n-queens boards (three all-different
/// constraints over offset views each) next to 4-12 unconstrained 0-1 variables - about 30
/// variables, a model that search solves with many restarts-worth of conflicts. A backtracking
/// solution per board plus arbitrary values of the free variables is planted. Branchers of every
/// kind (alternating strategies included) under eager restarts or any options; the returned
/// assignment has to be total and has to satisfy all constraints.
pub fn fam_planted_queens(seed: u64, tier: &str, index: u64) -> Scenario {
    let mut g = Gen::new(rng_for(seed, "planted_queens", index), params(tier));
    let boards = g.rng.gen_range(2..=4);
    let mut witness: Vec<i32> = vec![1];
    for _ in 0..boards {
        let n = g.rng.gen_range(5..=7usize);
        let qs: Vec<u32> = (0..n).map(|_| g.add_int_var_with((0..n as i32).collect(), false)).collect();
        let first = g.rng.gen_range(0..n);
        witness.extend(queens_solution(n, first));
        let plain: Vec<View> = qs.iter().map(|v| View::var(*v)).collect();
        let up: Vec<View> = qs.iter().enumerate().map(|(i, v)| View { v: *v, s: 1, o: i as i32 }).collect();
        let down: Vec<View> = qs.iter().enumerate().map(|(i, v)| View { v: *v, s: 1, o: -(i as i32) }).collect();
        g.post(Cons::Alldiff { xs: plain }, false);
        g.post(Cons::Alldiff { xs: up }, false);
        g.post(Cons::Alldiff { xs: down }, false);
    }
    let nfree = g.rng.gen_range(4..=12);
    for _ in 0..nfree {
        let _ = g.add_int_var_with(vec![0, 1], false);
        witness.push(g.rng.gen_range(0..=1));
    }
    g.steps.push(Step::Witness { vals: witness });
    let br = match index % 4 {
        0 => BrSpec { kind: "alt".into(), var: 2, val: 4 * 4 },      // input order / min, every restart
        1 => BrSpec { kind: "alt".into(), var: g.rng.gen_range(0..NUM_VAR_SEL), val: g.rng.gen_range(0..4 * NUM_VAL_SEL) },
        2 => BrSpec { kind: "indep".into(), var: g.rng.gen_range(0..NUM_VAR_SEL), val: g.rng.gen_range(0..NUM_VAL_SEL) },
        _ => g.random_brancher(),
    };
    g.steps.push(Step::Satisfy { br, stop_at: None });
    let mut opts = if index % 2 == 0 {
        // a restart is considered after every conflict and never skipped
        Opts { restart: "const".into(), restart_base: 1, restart_min_conflicts: 0, seed: g.rng.gen_range(0..1000), ..Opts::default() }
    } else {
        g.random_opts()
    };
    if opts.restart_base <= 3 && opts.high_lbd_limit <= 4 {
        opts.high_lbd_limit = 4000;
    }
    // chronological backtracking without learning does not finish on models of this size within
    // the harness' poll cap (it is exercised by the small families)
    opts.resolver = "uip".into();
    Scenario { fam: "planted_queens".into(), id: index, opts, steps: g.steps, engine: false }
}

/// `planted_sched` (C08): 8-14 tasks on one resource. A random schedule is planted, the capacity
/// is the peak of its profile (tight), the start windows contain the planted starts, and a few
/// precedences that the planted schedule respects are added. The option combination of the
/// cumulative is index-driven; satisfy, or iterate a handful of solutions.
pub fn fam_planted_sched(seed: u64, tier: &str, index: u64) -> Scenario {
    let mut g = Gen::new(rng_for(seed, "planted_sched", index), params(tier));
    let all = CumOpts::all();
    let copts = all[(index as usize) % all.len()];
    let ntasks = g.rng.gen_range(8..=14usize);
    let horizon = g.rng.gen_range(10..=18);
    let mut starts: Vec<View> = vec![];
    let mut witness: Vec<i32> = vec![1];
    let mut d: Vec<i32> = vec![];
    let mut r: Vec<i32> = vec![];
    let mut planted: Vec<i32> = vec![];
    let wide = g.rng.gen_bool(0.5);
    for _ in 0..ntasks {
        let dur = g.rng.gen_range(1..=4);
        let use_ = g.rng.gen_range(1..=3);
        let s = g.rng.gen_range(0..=(horizon - dur));
        // wide windows (half of the scenarios): no task has a mandatory part at the root, the
        // time-table starts empty and is built up during search only
        let (lo, hi) = if wide {
            let lo = s - g.rng.gen_range(0..=dur);
            (lo, (lo + dur + g.rng.gen_range(0..=1)).max(s))
        } else {
            ((s - g.rng.gen_range(0..=3)).max(0), (s + g.rng.gen_range(0..=3)).min(horizon - dur))
        };
        let v = g.add_int_var_with((lo..=hi).collect(), false);
        starts.push(View::var(v));
        witness.push(s);
        planted.push(s);
        d.push(dur);
        r.push(use_);
    }
    let mut peak = 0;
    for t in 0..=horizon {
        let h: i32 = (0..ntasks).filter(|i| planted[*i] <= t && t < planted[*i] + d[*i]).map(|i| r[i]).sum();
        peak = peak.max(h);
    }
    let cap = peak + if g.rng.gen_bool(0.3) { 1 } else { 0 };
    let cum = Cons::Cumulative { s: starts.clone(), d: d.clone(), r, cap, opts: copts };
    let reified = g.rng.gen_range(0..3) == 0;
    if reified {
        // the literal is declared last: input order decides it after the start times, in-domain-min
        // tries the inactive polarity first and the blocking clauses of the iteration then make
        // it true by propagation - with every start time already fixed
        let l = g.add_lit();
        witness.push(1);
        // free variables below the literal: the conflicts with the blocking clauses happen there,
        // and the backjump returns to a level at which the start times are fixed already
        for _ in 0..g.rng.gen_range(1..=2) {
            let _ = g.add_int_var_with(vec![0, 1], false);
            witness.push(g.rng.gen_range(0..=1));
        }
        g.post(Cons::Imp { r: View::var(l), c: Box::new(cum) }, false);
    } else {
        g.post(cum, false);
    }
    // precedences respected by the planted schedule: s_i + d_i <= s_j
    let mut pairs: Vec<(usize, usize)> = vec![];
    for i in 0..ntasks {
        for j in 0..ntasks {
            if i != j && planted[i] + d[i] <= planted[j] {
                pairs.push((i, j));
            }
        }
    }
    pairs.shuffle(&mut g.rng);
    for (i, j) in pairs.into_iter().take(g.rng.gen_range(0..=5)) {
        // s_i - s_j <= -d_i
        g.post(Cons::LinLe { terms: vec![starts[i], View { v: starts[j].v, s: -1, o: 0 }], rhs: -d[i] }, false);
    }
    g.steps.push(Step::Witness { vals: witness });
    let br = match g.rng.gen_range(0..3) {
        0 => BrSpec { kind: "indep".into(), var: 2, val: g.rng.gen_range(0..NUM_VAL_SEL) },
        1 => BrSpec { kind: "indep".into(), var: 9, val: 4 },        // smallest / min: chronological
        _ => g.random_brancher(),
    };
    if reified {
        let br = if g.rng.gen_bool(0.7) { BrSpec { kind: "indep".into(), var: 2, val: 4 } } else { br };
        g.steps.push(Step::Iterate { br, max: 12, stop_at: None, resume: false });
    } else if index % 3 == 0 {
        g.steps.push(Step::Iterate { br, max: 6, stop_at: None, resume: false });
    } else {
        g.steps.push(Step::Satisfy { br, stop_at: None });
    }
    let mut opts = if g.rng.gen_bool(0.5) { Opts::default() } else { g.random_opts() };
    if opts.restart_base <= 3 && opts.high_lbd_limit <= 4 {
        opts.high_lbd_limit = 4000;
    }
    // chronological backtracking without learning does not finish on models of this size within
    // the harness' poll cap (it is exercised by the small families)
    opts.resolver = "uip".into();
    Scenario { fam: "planted_sched".into(), id: index, opts, steps: g.steps, engine: false }
}

/// `planted_eq` (C02, C07): random 3-literal clauses over `==` / `!=` predicates on distinct
/// variables, every clause true under a planted assignment, heavily over-constrained (6-12 clauses
/// per variable) so that search runs into hundreds of conflicts: 16 variables x 4 values or 20 x 3
/// with tiny learned-nogood limits (the database is cleaned up every few conflicts while nogoods
/// asserting equalities - two trail entries - are reasons on the trail), and, rarely, 60-90
/// variables under the default options (clean-up after 4 000 nogoods). Value selectors that decide
/// by removing values. The planted assignment refutes `Unsatisfiable` and may not be excluded by
/// any learned nogood.
pub fn fam_planted_eq(seed: u64, tier: &str, index: u64) -> Scenario {
    let mut g = Gen::new(rng_for(seed, "planted_eq", index), params(tier));
    let (n, k, m, big) = match index % 16 {
        7 => {
            let n = g.rng.gen_range(60..=90usize);
            (n, 2, (n as f64 * 6.4) as usize, true)
        }
        x if x % 2 == 0 => (16usize, 3, g.rng.gen_range(150..=200usize), false),
        _ => (20usize, 2, g.rng.gen_range(120..=150usize), false),
    };
    let mut witness: Vec<i32> = vec![1];
    let mut vars: Vec<u32> = vec![];
    for _ in 0..n {
        let v = g.add_int_var_with((0..=k).collect(), false);
        witness.push(g.rng.gen_range(0..=k));
        vars.push(v);
    }
    let mut posted = 0;
    while posted < m {
        let mut picked: Vec<u32> = vars.clone();
        picked.shuffle(&mut g.rng);
        let ps: Vec<Pred> = picked
            .iter()
            .take(3)
            .map(|v| Pred {
                x: View::var(*v),
                op: if g.rng.gen_bool(0.5) { Op::Eq } else { Op::Ne },
                k: g.rng.gen_range(0..=k),
            })
            .collect();
        // only clauses that hold under the planted assignment are kept
        let holds = ps.iter().any(|p| {
            let val = witness[(p.x.v - 1) as usize];
            if p.op == Op::Eq { val == p.k } else { val != p.k }
        });
        if holds {
            g.post(Cons::Clause { ps }, false);
            posted += 1;
        }
    }
    g.steps.push(Step::Witness { vals: witness });
    let br = match g.rng.gen_range(0..4) {
        0 | 1 => BrSpec { kind: "indep".into(), var: 2, val: 11 },      // input order / out-domain random
        2 => BrSpec { kind: "indep".into(), var: 2, val: g.rng.gen_range(8..=11) },
        _ => BrSpec { kind: "indep".into(), var: g.rng.gen_range(0..NUM_VAR_SEL), val: g.rng.gen_range(0..NUM_VAL_SEL) },
    };
    g.steps.push(Step::Satisfy { br, stop_at: None });
    let mut opts = Opts { seed: g.rng.gen_range(0..1000), ..Opts::default() };
    if !big {
        opts.high_lbd_limit = g.rng.gen_range(0..=6);
        opts.lbd_threshold = g.rng.gen_range(0..=2);
        opts.sorting = if g.rng.gen_bool(0.5) { "lbd".into() } else { "activity".into() };
        opts.minimise = g.rng.gen_bool(0.7);
    }
    Scenario { fam: "planted_eq".into(), id: index, opts, steps: g.steps, engine: false }
}

/// `iterate2` (C03): the model of an `iterate` scenario enumerated twice on the same solver. The
/// first enumeration ends through a root-level conflict found by search; whatever the second one
/// yields has to be a solution again (it yields nothing while the blocking clauses of the first
/// stay behind - the open finding F2 - but never a non-solution).
pub fn fam_iterate2(seed: u64, tier: &str, index: u64) -> Scenario {
    let mut g = Gen::new(rng_for(seed, "iterate2", index), params(tier));
    g.p.max_space = g.p.max_space.min(300);
    let ncons = g.rng.gen_range(1..=g.p.max_cons);
    g.build_model(ncons, false);
    for _ in 0..2 {
        let br = g.random_brancher();
        g.steps.push(Step::Iterate { br, max: 100000, stop_at: None, resume: false });
    }
    if g.rng.gen_bool(0.3) {
        let br = g.random_brancher();
        g.steps.push(Step::Satisfy { br, stop_at: None });
    }
    let opts = g.random_opts();
    Scenario { fam: "iterate2".into(), id: index, opts, steps: g.steps, engine: index % 4 == 0 }
}

/// `eqdecide` (C02): one or two variables with wide domains decided by EQUALITY decisions in the
/// middle of their domains (median / middle / random value selectors: an equality decision is two
/// trail entries, `[x >= v]` and `[x <= v]`), 2-3 zero-one variables, and clauses over bound
/// predicates with constants around the middle - conflicts mention predicates that are merely
/// implied by one half of the decision. Input order, all solutions iterated, every engine event
/// recorded (each learned nogood is judged against Sol(M)).
pub fn fam_eqdecide(seed: u64, tier: &str, index: u64) -> Scenario {
    let mut g = Gen::new(rng_for(seed, "eqdecide", index), params(tier));
    let nwide = if g.rng.gen_bool(0.6) { 1 } else { 2 };
    let mut wide: Vec<(u32, i32)> = vec![];
    for _ in 0..nwide {
        let u = g.rng.gen_range(5..=if nwide == 1 { 12 } else { 8 });
        let lo = g.rng.gen_range(-2..=1);
        let v = g.add_int_var_with((lo..=lo + u).collect(), false);
        wide.push((v, lo + u / 2));
    }
    let nb = g.rng.gen_range(2..=3);
    let bools: Vec<u32> = (0..nb).map(|_| g.add_int_var_with(vec![0, 1], false)).collect();
    let ncl = g.rng.gen_range(4..=9);
    for _ in 0..ncl {
        let mut ps: Vec<Pred> = vec![];
        // one or two bound predicates around the middle of a wide variable
        for _ in 0..g.rng.gen_range(1..=2) {
            let (v, mid) = wide[g.rng.gen_range(0..wide.len())];
            let c = mid + g.rng.gen_range(-2..=2);
            let op = if g.rng.gen_bool(0.5) { Op::Ge } else { Op::Le };
            ps.push(Pred { x: View::var(v), op, k: c });
        }
        for _ in 0..g.rng.gen_range(0..=1) {
            let b = bools[g.rng.gen_range(0..bools.len())];
            let val = g.rng.gen_range(0..=1);
            ps.push(Pred { x: View::var(b), op: if val == 1 { Op::Ge } else { Op::Le }, k: val });
        }
        g.post(Cons::Clause { ps }, false);
    }
    // windows around the middle that force contradictory values of one zero-one variable: the
    // conflict mentions `[x >= c1]` and `[x <= c2]` with c1 < v < c2 for a decision `[x == v]`
    if g.rng.gen_bool(0.7) {
        let (v, mid) = wide[g.rng.gen_range(0..wide.len())];
        let b = bools[g.rng.gen_range(0..bools.len())];
        let (a1, b1) = (mid - g.rng.gen_range(0..=1), mid + g.rng.gen_range(0..=1));
        let (a2, b2) = (a1 - g.rng.gen_range(0..=2), b1 + g.rng.gen_range(0..=2));
        let window = |lo: i32, hi: i32, val: i32| Cons::Clause {
            ps: vec![
                Pred { x: View::var(v), op: Op::Le, k: lo - 1 },
                Pred { x: View::var(v), op: Op::Ge, k: hi + 1 },
                Pred { x: View::var(b), op: if val == 1 { Op::Ge } else { Op::Le }, k: val },
            ],
        };
        let first = g.rng.gen_range(0..=1);
        g.post(window(a1, b1, first), false);
        g.post(window(a2, b2, 1 - first), false);
    }
    // both values of a zero-one variable refute the lower part of a wide variable (found by
    // propagation only)
    if g.rng.gen_bool(0.6) {
        let (v, mid) = wide[0];
        let c = mid - g.rng.gen_range(0..=2);
        let b = bools[0];
        g.post(Cons::Clause { ps: vec![Pred { x: View::var(v), op: Op::Ge, k: c }, Pred { x: View::var(b), op: Op::Ge, k: 1 }] }, false);
        g.post(Cons::Clause { ps: vec![Pred { x: View::var(v), op: Op::Ge, k: c }, Pred { x: View::var(b), op: Op::Le, k: 0 }] }, false);
    }
    let val = *[2u8, 3, 5, 2, 3, 7, 12].choose(&mut g.rng).unwrap();
    let br = BrSpec { kind: "indep".into(), var: 2, val };
    g.steps.push(Step::Iterate { br, max: 100000, stop_at: None, resume: false });
    let mut opts = if g.rng.gen_bool(0.5) { Opts::default() } else { g.random_opts() };
    opts.resolver = "uip".into();
    if opts.restart_base <= 3 && opts.high_lbd_limit <= 4 {
        opts.high_lbd_limit = 4000;
    }
    Scenario { fam: "eqdecide".into(), id: index, opts, steps: g.steps, engine: true }
}

/// `optimise2` (C04): objectives whose values straddle zero. 2-4 variables with domains around
/// zero, 1-3 random constraints, the objective a variable or a view with scale +-1 / +-2 and an
/// offset, maximisation in two thirds of the scenarios, both procedures (the optimisers negate the
/// objective internally when maximising: confusing the two orientations is invisible as long as
/// all values are non-negative or the direction is minimisation).
pub fn fam_optimise2(seed: u64, tier: &str, index: u64) -> Scenario {
    let mut g = Gen::new(rng_for(seed, "optimise2", index), params(tier));
    let nv = g.rng.gen_range(2..=4);
    let mut vars = vec![];
    for _ in 0..nv {
        let k = g.rng.gen_range(1..=3);
        let lo = -k - g.rng.gen_range(0..=1);
        let hi = k + g.rng.gen_range(0..=1);
        let mut vals: Vec<i32> = (lo..=hi).collect();
        let sparse = vals.len() >= 4 && g.rng.gen_bool(0.25);
        if sparse {
            let _ = vals.remove(g.rng.gen_range(1..vals.len() - 1));
        }
        vars.push(g.add_int_var_with(vals, sparse));
    }
    for _ in 0..g.rng.gen_range(1..=3) {
        let k = *["lin_le", "lin_ne", "bin_lt", "bin_ne", "lin_le", "alldiff", "abs", "max"].choose(&mut g.rng).unwrap();
        let c = g.cons_of_kind(k);
        g.post(c, false);
    }
    let v = vars[g.rng.gen_range(0..vars.len())];
    let obj = match g.rng.gen_range(0..4) {
        0 => View::var(v),
        1 => View { v, s: -1, o: g.rng.gen_range(-2..=2) },
        2 => View { v, s: 2, o: g.rng.gen_range(-3..=3) },
        _ => View { v, s: *[1, -2].choose(&mut g.rng).unwrap(), o: g.rng.gen_range(-2..=2) },
    };
    let br = match g.rng.gen_range(0..3) {
        0 => BrSpec { kind: "indep".into(), var: 2, val: *[1u8, 4, 2].choose(&mut g.rng).unwrap() },
        _ => g.random_brancher(),
    };
    g.steps.push(Step::Optimise { br, maximise: index % 3 != 0, lus: (index / 3) % 2 == 0, obj, stop_at: None });
    let opts = if g.rng.gen_bool(0.5) { Opts::default() } else { g.random_opts() };
    Scenario { fam: "optimise2".into(), id: index, opts, steps: g.steps, engine: index % 4 == 0 }
}

/// `cumholes` (C17, C08): the explanations of the cumulative propagators on long profiles. 3-4
/// tasks with durations 2-4 and start ranges that span a profile on both sides (width 6-8),
/// capacity 1-2, the option combination index-driven but biased to hole propagation
/// (`allow_holes_in_domain`), all three explanation types and all six methods; unary clauses move
/// bounds after posting and a search order that fixes one task in the middle moves the start of a
/// profile by a decision. Every engine event is recorded: each reason is judged for entailment.
pub fn fam_cumholes(seed: u64, tier: &str, index: u64) -> Scenario {
    let mut g = Gen::new(rng_for(seed, "cumholes", index), params(tier));
    let all = CumOpts::all();
    let mut copts = all[(index as usize) % all.len()];
    if index % 4 != 3 {
        copts.holes = true;
    }
    let ntasks = if tier == "thorough" && g.rng.gen_bool(0.3) { 4 } else { 3 };
    let mut starts = vec![];
    let mut d = vec![];
    let mut r = vec![];
    for t in 0..ntasks {
        let w = g.rng.gen_range(5..=if ntasks == 3 { 7 } else { 6 });
        let lo = g.rng.gen_range(-1..=2);
        let v = g.add_int_var_with((lo..lo + w).collect(), false);
        starts.push(View::var(v));
        d.push(if t == 0 { g.rng.gen_range(3..=4) } else { g.rng.gen_range(1..=4) });
        r.push(g.rng.gen_range(1..=2));
    }
    let cap = g.rng.gen_range(1..=2).max(*r.iter().max().unwrap());
    g.post(Cons::Cumulative { s: starts.clone(), d, r, cap, opts: copts }, false);
    // a zero-one variable and clauses that tie it to bounds of the tasks: conflicts whose analysis
    // goes through propagated holes and bounds
    let b = g.add_int_var_with(vec![0, 1], false);
    for _ in 0..g.rng.gen_range(1..=3) {
        let x = starts[g.rng.gen_range(0..starts.len())];
        let vals = g.info(x.v).vals.clone();
        let k = vals[g.rng.gen_range(1..vals.len() - 1)];
        let p = Pred { x, op: *[Op::Ge, Op::Le, Op::Ne, Op::Eq].choose(&mut g.rng).unwrap(), k };
        let q = Pred { x: View::var(b), op: if g.rng.gen_bool(0.5) { Op::Ge } else { Op::Le }, k: g.rng.gen_range(0..=1) };
        g.post(Cons::Clause { ps: vec![p, q] }, false);
    }
    if g.rng.gen_bool(0.4) {
        let k = *["lin_le", "bin_lt", "lin_ne"].choose(&mut g.rng).unwrap();
        let c2 = g.cons_of_kind(k);
        g.post(c2, false);
    }
    let br = match g.rng.gen_range(0..4) {
        0 => BrSpec { kind: "indep".into(), var: 2, val: 2 },        // input order, median: a task fixed in the middle
        1 => BrSpec { kind: "indep".into(), var: 2, val: g.rng.gen_range(0..NUM_VAL_SEL) },
        _ => g.random_brancher(),
    };
    // (the first 40 solutions only: every reason is judged when it is given, not at the end)
    g.steps.push(Step::Iterate { br, max: 40, stop_at: None, resume: false });
    let mut opts = if g.rng.gen_bool(0.5) { Opts::default() } else { g.random_opts() };
    opts.resolver = "uip".into();
    if g.rng.gen_bool(0.7) {
        opts.minimise = true;
    }
    if opts.restart_base <= 3 && opts.high_lbd_limit <= 4 {
        opts.high_lbd_limit = 4000;
    }
    Scenario { fam: "cumholes".into(), id: index, opts, steps: g.steps, engine: true }
}

/// `reif`: one constraint of the catalogue (index-driven kind) posted half-reified, reified or
/// negated, with the reification literal free / forced before / forced after posting, all
/// solutions iterated (C09).
pub fn fam_reif(seed: u64, tier: &str, index: u64) -> Scenario {
    let mut g = Gen::new(rng_for(seed, "reif", index), params(tier));
    g.p.max_space = g.p.max_space.min(400);
    let nv = g.rng.gen_range(2..=3);
    for _ in 0..nv {
        let _ = g.add_int_var();
    }
    let l = g.add_lit();
    let _ = g.add_lit();
    let kinds = [
        "lin_le", "lin_eq", "lin_ne", "bin_le", "bin_lt", "bin_eq", "bin_ne", "plus", "times", "div",
        "abs", "max", "min", "element", "alldiff", "cumulative", "bool_lin_le", "bool_lin_eq",
        "lit_clause", "lit_conj",
    ];
    let kind = kinds[(index as usize) % kinds.len()];
    let c = g.cons_of_kind(kind);
    let r = if g.rng.gen_bool(0.5) { View::var(l) } else { View { v: l, s: -1, o: 1 } };
    let mode = (index as usize / kinds.len()) % 4;
    let wrapped = match mode {
        1 if c.is_negatable() => Cons::Reif { r, c: Box::new(c) },
        2 if c.is_negatable() => Cons::Neg { c: Box::new(c) },
        3 => c, // the plain constraint: every kind gets its share of unwrapped scenarios as well
        _ => Cons::Imp { r, c: Box::new(c) },
    };
    // status of the reification literal when posting
    let force = Cons::Clause {
        ps: vec![Pred { x: View::var(l), op: if g.rng.gen_bool(0.5) { Op::Ge } else { Op::Le },
                        k: if g.rng.gen_bool(0.5) { 1 } else { 0 } }],
    };
    match g.rng.gen_range(0..4) {
        0 => {
            g.post(force, false);
            g.post(wrapped, false);
        }
        1 => {
            g.post(wrapped, false);
            g.post(force, false);
        }
        _ => g.post(wrapped, false),
    }
    if g.rng.gen_bool(0.4) {
        let c2 = g.random_cons();
        g.post(c2, false);
    }
    // a second (half-)reified constraint over the same literal, either polarity: the two wrapped
    // propagators then interact through the literal (one conflicts while the other has only been
    // notified), which a single reified constraint never does
    if g.rng.gen_bool(0.45) {
        let k2 = *["lin_le", "lin_le", "lin_le", "lin_ne", "lin_eq", "bin_le", "max", "element", "lit_clause"]
            .choose(&mut g.rng)
            .unwrap();
        let c2 = g.cons_of_kind(k2);
        let r2 = if g.rng.gen_bool(0.5) { View::var(l) } else { View { v: l, s: -1, o: 1 } };
        let w2 = if c2.is_negatable() && g.rng.gen_bool(0.5) {
            Cons::Reif { r: r2, c: Box::new(c2) }
        } else {
            Cons::Imp { r: r2, c: Box::new(c2) }
        };
        g.post(w2, false);
    }
    // unary side clauses on the integer variables: bounds then move for reasons outside the
    // constraint under test while the declared domains (over which entailment is judged) stay wide
    if g.rng.gen_bool(0.6) {
        for _ in 0..g.rng.gen_range(1..=2) {
            let v = *g.int_vars().choose(&mut g.rng).unwrap();
            let mut p = g.pred_on(View::var(v));
            p.op = *[Op::Ge, Op::Le, Op::Ne].choose(&mut g.rng).unwrap();
            g.post(Cons::Clause { ps: vec![p] }, false);
        }
    }
    let br = match g.rng.gen_range(0..3) {
        0 => BrSpec { kind: "indep".into(), var: 2, val: g.rng.gen_range(0..NUM_VAL_SEL) }, // input order: r last
        _ => g.random_brancher(),
    };
    g.steps.push(Step::Iterate { br, max: 100000, stop_at: None, resume: false });
    let mut opts = g.random_opts();
    if opts.restart_base <= 3 && opts.high_lbd_limit <= 4 {
        opts.high_lbd_limit = 4000;
    }
    Scenario { fam: "reif".into(), id: index, opts, steps: g.steps, engine: true }
}

/// `rootbounds` (C12): no search at all. 4-5 variables, one constraint of an index-driven kind
/// (maximum / minimum / element over up to 4 elements) between unary side clauses and a second
/// random constraint; the root bounds of every variable and view are queried after each posting.
pub fn fam_rootbounds(seed: u64, tier: &str, index: u64) -> Scenario {
    let mut g = Gen::new(rng_for(seed, "rootbounds", index), params(tier));
    g.p.max_space = g.p.max_space.min(2500);
    let nv = g.rng.gen_range(4..=5);
    for _ in 0..nv {
        let _ = g.add_int_var();
    }
    let _ = g.add_lit();
    let xs = g.all_views_for_bounds();
    g.steps.push(Step::Bounds { xs });
    let kinds = [
        "max", "min", "lin_le", "lin_eq", "element", "max", "min", "times", "div", "abs", "plus",
        "lin_ne", "bin_le", "bin_eq", "alldiff", "cumulative", "bool_lin_le", "bool_lin_eq", "bin_ne",
    ];
    let kind = kinds[(index as usize) % kinds.len()];
    let side = |g: &mut Gen| {
        for _ in 0..g.rng.gen_range(0..=2) {
            let v = *g.int_vars().choose(&mut g.rng).unwrap();
            let mut p = g.pred_on(View::var(v));
            p.op = *[Op::Ge, Op::Le, Op::Ne, Op::Ge, Op::Le].choose(&mut g.rng).unwrap();
            g.post(Cons::Clause { ps: vec![p] }, true);
        }
    };
    side(&mut g);
    let c = match kind {
        "max" | "min" => {
            let n = g.rng.gen_range(3..=4.min(g.int_vars().len() - 1));
            let xs = g.distinct_views(n);
            let y = g.some_int_view();
            if kind == "max" { Cons::Max { xs, y } } else { Cons::Min { xs, y } }
        }
        k => g.cons_of_kind(k),
    };
    g.post(c, true);
    side(&mut g);
    if g.rng.gen_bool(0.5) {
        let c2 = g.random_cons();
        g.post(c2, true);
        side(&mut g);
    }
    Scenario { fam: "rootbounds".into(), id: index, opts: Opts::default(), steps: g.steps, engine: false }
}

/// `proof` (C06): a model in which every constraint is posted with its own tag (no `add_clause`,
/// `constraints::clause` or `constraints::conjunction`: the library states that clauses cannot be
/// tagged, "tagging clauses is not implemented"), solved to a definitive answer (unsatisfiable, or optimal
/// under either procedure) with DRCP proof logging: scaffold, full, or full with hints; with and
/// without nogood minimisation.
pub fn fam_proof(seed: u64, tier: &str, index: u64) -> Scenario {
    let mut g = Gen::new(rng_for(seed, "proof", index), params(tier));
    g.p.max_space = g.p.max_space.min(300);
    let kinds = [
        "lin_le", "lin_eq", "lin_ne", "bin_le", "bin_lt", "bin_eq", "bin_ne", "plus", "times", "div",
        "abs", "max", "min", "element", "alldiff", "cumulative", "bool_lin_le", "bool_lin_eq",
    ];
    let optimise = index % 3 != 0 && index % 6 != 5;
    let mut tag = 0u32;
    let mut post = |g: &mut Gen, c: Cons| {
        tag += 1;
        g.cons.push(c.clone());
        g.steps.push(Step::Post { c, tag: Some(tag) });
    };
    // constraints of the chosen style are posted only after every variable has been declared (no
    // variable can be created once posting has made the solver infeasible)
    let mut pending: Vec<Cons> = vec![];
    let style = if index % 6 == 5 { 3 } else { g.rng.gen_range(0..3) };
    if style == 3 {
        // a predicate literal pruned through disequalities: x in 0..2k-1, y in 0..1, b <-> [x >= k],
        // b # y (or b + y # 1), and two inequalities tying x to y so that search is needed
        let k = g.rng.gen_range(2..=4);
        let x = g.add_int_var_with((0..2 * k).collect(), false);
        let y = g.add_int_var_with(vec![0, 1], false);
        let _ = g.add_lit();
        let b = g.next_index();
        g.vars.push(VarInfo { v: b, vals: vec![0, 1], lit: true });
        let p = Pred { x: View::var(x), op: if g.rng.gen_bool(0.7) { Op::Ge } else { Op::Le }, k };
        g.steps.push(Step::NewLitPred { p });
        if g.rng.gen_bool(0.5) {
            post(&mut g, Cons::LinNe { terms: vec![View::var(b), View { v: y, s: -1, o: 0 }], rhs: 0 });
        } else {
            post(&mut g, Cons::LinNe { terms: vec![View::var(b), View::var(y)], rhs: 1 });
        }
        let lo = g.rng.gen_range(0..=1);
        post(&mut g, Cons::LinLe { terms: vec![View { v: x, s: -1, o: 0 }, View { v: y, s: k, o: 0 }], rhs: -lo });
        let hi = k - 1 - g.rng.gen_range(0..=1);
        post(&mut g, Cons::LinLe { terms: vec![View::var(x), View { v: y, s: -k, o: 0 }], rhs: hi });
    } else if style == 0 {
        // pigeon-hole flavoured: n variables over w values, pairwise different (binary or global)
        let w = g.rng.gen_range(2..=3);
        let n = if optimise { w } else { w + 1 };
        let lo = g.rng.gen_range(-2..=1);
        let xs: Vec<u32> = (0..n).map(|_| g.add_int_var_with((lo..lo + w).collect(), false)).collect();
        let _ = g.add_lit();
        if g.rng.gen_bool(0.5) {
            pending.push(Cons::Alldiff { xs: xs.iter().map(|v| View::var(*v)).collect() });
        } else {
            for i in 0..xs.len() {
                for j in i + 1..xs.len() {
                    pending.push(Cons::BinNe { a: View::var(xs[i]), b: View::var(xs[j]) });
                }
            }
        }
    } else {
        let nv = g.rng.gen_range(2..=4);
        for _ in 0..nv {
            let _ = g.add_int_var();
        }
        let _ = g.add_lit();
    }
    // the objective variable is declared before anything is posted (no variable can be created
    // once posting has made the solver infeasible)
    let maximise = g.rng.gen_bool(0.5);
    let objective = if optimise {
        let ivs = g.int_vars();
        let x = View::var(*ivs.choose(&mut g.rng).unwrap());
        let y = View::var(*ivs.choose(&mut g.rng).unwrap());
        let info = |g: &Gen, v: View| (*g.info(v.v).vals.first().unwrap(), *g.info(v.v).vals.last().unwrap());
        let (xl, xh) = info(&g, x);
        let (yl, yh) = info(&g, y);
        let o = g.add_int_var_with((xl + yl - 1..=xh + yh + 1).collect(), false);
        Some((x, y, o))
    } else {
        None
    };
    // a literal that stands for a predicate (`new_literal_for_predicate`; the proof substitutes the
    // predicate for it), used as a 0-1 integer in linear constraints
    if style != 3 && g.rng.gen_range(0..3) == 0 {
        let x = View::var(*g.int_vars().choose(&mut g.rng).unwrap());
        let mut p = g.pred_on(x);
        p.op = *[Op::Ge, Op::Le, Op::Eq, Op::Ne].choose(&mut g.rng).unwrap();
        let v = g.next_index();
        g.vars.push(VarInfo { v, vals: vec![0, 1], lit: true });
        g.steps.push(Step::NewLitPred { p });
        let y = View::var(*g.int_vars().choose(&mut g.rng).unwrap());
        let lit = View::var(v);
        let c = match g.rng.gen_range(0..10) {
            // (a linear inequality cites the initial bound [lit >= 0] in its reasons: known finding F37)
            0 => Cons::LinLe { terms: vec![View { v, s: g.rng.gen_range(1..=3), o: 0 }, y], rhs: g.rng.gen_range(0..=2) },
            1..=5 => Cons::LinNe { terms: vec![lit, View { v: y.v, s: -1, o: 0 }], rhs: g.rng.gen_range(-1..=1) },
            _ => {
                let kind = *["lin_le", "bin_ne", "lin_ne", "alldiff"].choose(&mut g.rng).unwrap();
                let inner = g.cons_of_kind(kind);
                let r = if g.rng.gen_bool(0.5) { lit } else { View { v, s: -1, o: 1 } };
                Cons::Imp { r, c: Box::new(inner) }
            }
        };
        post(&mut g, c);
    }
    for c in pending {
        post(&mut g, c);
    }
    let ncons = g.rng.gen_range(1..=4);
    for _ in 0..ncons {
        let k = *kinds.choose(&mut g.rng).unwrap();
        let c = g.cons_of_kind(k);
        let c = if c.is_negatable() && g.rng.gen_range(0..5) == 0 {
            let l = *g.lit_vars().choose(&mut g.rng).unwrap();
            let r = if g.rng.gen_bool(0.5) { View::var(l) } else { View { v: l, s: -1, o: 1 } };
            if g.rng.gen_bool(0.5) { Cons::Reif { r, c: Box::new(c) } } else { Cons::Imp { r, c: Box::new(c) } }
        } else {
            c
        };
        post(&mut g, c);
    }
    let br = g.random_brancher();
    if let Some((x, y, o)) = objective {
        let neg = |v: View| View { v: v.v, s: -v.s, o: -v.o };
        let ov = View::var(o);
        let terms = if maximise { vec![ov, neg(x), neg(y)] } else { vec![x, y, neg(ov)] };
        post(&mut g, Cons::LinLe { terms, rhs: 0 });
        let obj = match g.rng.gen_range(0..4) {
            0 => View { v: o, s: 2, o: 1 },
            _ => ov,
        };
        g.steps.push(Step::Optimise { br, maximise, lus: g.rng.gen_bool(0.5), obj, stop_at: None });
    } else {
        g.steps.push(Step::Satisfy { br, stop_at: None });
    }
    let mut opts = g.random_opts();
    opts.resolver = "uip".into();
    if opts.restart_base <= 3 && opts.high_lbd_limit <= 4 {
        opts.high_lbd_limit = 4000;
    }
    opts.proof = ["scaffold", "full", "hints"][(index as usize / 3) % 3].into();
    Scenario { fam: "proof".into(), id: index, opts, steps: g.steps, engine: false }
}

/// `reif2`: two or three (half-)reified constraints (mostly linear inequalities, the only
/// propagator with an incremental inconsistency check) over ONE reification literal in either
/// polarity. While one wrapped propagator has merely been notified of an inconsistency the other
/// one conflicts, the search backjumps (possibly to the root) and the first one must not act on
/// what it cached. All solutions are iterated (C09).
pub fn fam_reif2(seed: u64, tier: &str, index: u64) -> Scenario {
    let mut g = Gen::new(rng_for(seed, "reif2", index), params(tier));
    g.p.max_space = g.p.max_space.min(150);
    let nv = g.rng.gen_range(3..=4);
    for _ in 0..nv {
        let _ = g.add_int_var();
    }
    let _ = g.add_lit();
    let l = g.add_lit();
    let n = g.rng.gen_range(2..=3);
    for _ in 0..n {
        let k = *["lin_le", "lin_le", "lin_le", "lin_le", "lin_ne", "lin_eq", "lit_clause", "bin_le"]
            .choose(&mut g.rng)
            .unwrap();
        let c = g.cons_of_kind(k);
        let r = if g.rng.gen_bool(0.5) { View::var(l) } else { View { v: l, s: -1, o: 1 } };
        let w = if c.is_negatable() && g.rng.gen_bool(0.5) {
            Cons::Reif { r, c: Box::new(c) }
        } else {
            Cons::Imp { r, c: Box::new(c) }
        };
        g.post(w, false);
    }
    let br = match g.rng.gen_range(0..3) {
        0 => BrSpec { kind: "default".into(), var: 0, val: 0 },
        1 => BrSpec { kind: "indep".into(), var: 2, val: g.rng.gen_range(0..NUM_VAL_SEL) },
        _ => g.random_brancher(),
    };
    g.steps.push(Step::Iterate { br, max: 100000, stop_at: None, resume: false });
    let opts = if g.rng.gen_bool(0.5) { Opts::default() } else { g.random_opts() };
    let mut opts = opts;
    if opts.restart_base <= 3 && opts.high_lbd_limit <= 4 {
        opts.high_lbd_limit = 4000;
    }
    Scenario { fam: "reif2".into(), id: index, opts, steps: g.steps, engine: index % 4 == 0 }
}

/// A model with enough conflicts to exercise learning, restarts and nogood deletion: 4-6
/// variables of width 3-4 and a dense set of disequalities / small linear constraints / clauses.
pub fn build_dense_model(g: &mut Gen, tier: &str) {
    let nv = g.rng.gen_range(4..=if tier == "thorough" { 6 } else { 5 });
    let w = g.rng.gen_range(3..=4);
    let lo = g.rng.gen_range(-2..=2);
    for _ in 0..nv {
        let shift = g.rng.gen_range(0..=1);
        let vals: Vec<i32> = (lo + shift..lo + shift + w).collect();
        let _ = g.add_int_var_with(vals, false);
    }
    // a third of the models get a (half-)reified element: its bound propagations have lazy reasons
    // wrapped by the reification, which the nogood database meets when it cleans up
    let with_reified_element = g.rng.gen_bool(0.35);
    let nl = g.rng.gen_range(if with_reified_element { 1 } else { 0 }..=2);
    for _ in 0..nl {
        let _ = g.add_lit();
    }
    // a colouring-like core: disequalities between (offset) variables on a random graph, which is
    // what makes the search run into conflicts that root propagation cannot resolve
    let ivs = g.int_vars();
    let density = g.rng.gen_range(50..=90);
    for i in 0..ivs.len() {
        for j in i + 1..ivs.len() {
            if g.rng.gen_range(0..100) < density {
                let o = if g.rng.gen_bool(0.25) { g.rng.gen_range(-1..=1) } else { 0 };
                let a = View { v: ivs[i], s: 1, o };
                let b = View::var(ivs[j]);
                let c = match g.rng.gen_range(0..6) {
                    0 => Cons::LinNe { terms: vec![a, View { v: ivs[j], s: -1, o: 0 }], rhs: 0 },
                    1 => Cons::Alldiff { xs: vec![a, b] },
                    _ => Cons::BinNe { a, b },
                };
                g.post(c, false);
            }
        }
    }
    let nc = g.rng.gen_range(1..=4);
    for _ in 0..nc {
        let k = *[
            "bin_ne", "bin_ne", "alldiff", "lin_ne", "lin_le", "lin_eq", "clause", "clause", "bin_lt",
            "max", "abs", "element", "times",
        ]
        .choose(&mut g.rng)
        .unwrap();
        let c = g.cons_of_kind(k);
        let c = if g.rng.gen_bool(0.15) { g.wrap(c) } else { c };
        g.post(c, false);
    }
    if with_reified_element {
        let c = g.cons_of_kind("element");
        let l = *g.lit_vars().choose(&mut g.rng).unwrap();
        let r = if g.rng.gen_bool(0.5) { View::var(l) } else { View { v: l, s: -1, o: 1 } };
        g.post(Cons::Imp { r, c: Box::new(c) }, false);       // (element cannot be negated / fully reified)
    }
}

/// `dbclean` (C07): the learned-nogood database is cleaned constantly (limit 0-2, every nogood
/// counts as high-LBD) while a half-reified element - the propagator whose reasons are lazy AND
/// wrapped by a reification - takes part in the conflicts; all solutions are iterated.
pub fn fam_dbclean(seed: u64, tier: &str, index: u64) -> Scenario {
    let mut g = Gen::new(rng_for(seed, "dbclean", index), params(tier));
    let idx = g.add_int_var_with(vec![0, 1, 2], false);
    let mut vs = vec![];
    for _ in 0..4 {
        vs.push(g.add_int_var_with(vec![0, 1, 2, 3], false));
    }
    let l = g.add_lit();
    vs.shuffle(&mut g.rng);
    let elem = Cons::Element {
        idx: View::var(idx),
        xs: vec![View::var(vs[0]), View::var(vs[1]), View::var(vs[2])],
        y: View::var(vs[3]),
    };
    let r = if g.rng.gen_bool(0.7) { View::var(l) } else { View { v: l, s: -1, o: 1 } };
    g.post(Cons::Imp { r, c: Box::new(elem) }, false);
    for _ in 0..g.rng.gen_range(2..=4) {
        let all = g.int_vars();
        let a = *all.choose(&mut g.rng).unwrap();
        let b = *all.choose(&mut g.rng).unwrap();
        if a == b {
            continue;
        }
        let c = match g.rng.gen_range(0..3) {
            0 => Cons::BinNe { a: View::var(a), b: View::var(b) },
            1 => Cons::LinLe {
                terms: vec![
                    View { v: a, s: *[1, 2, -1].choose(&mut g.rng).unwrap(), o: 0 },
                    View { v: b, s: *[1, -1, 2].choose(&mut g.rng).unwrap(), o: 0 },
                ],
                rhs: g.rng.gen_range(0..=4),
            },
            _ => Cons::LinNe {
                terms: vec![View::var(a), View { v: b, s: *[1, -1].choose(&mut g.rng).unwrap(), o: 0 }],
                rhs: g.rng.gen_range(0..=3),
            },
        };
        g.post(c, false);
    }
    let br = if g.rng.gen_bool(0.5) {
        BrSpec { kind: "default".into(), var: 0, val: 0 }
    } else {
        g.random_brancher()
    };
    g.steps.push(Step::Iterate { br, max: 100000, stop_at: None, resume: false });
    let mut opts = Opts::default();
    opts.minimise = g.rng.gen_bool(0.5);
    opts.high_lbd_limit = g.rng.gen_range(0..=2);
    opts.lbd_threshold = 0;
    opts.sorting = if g.rng.gen_bool(0.5) { "lbd".into() } else { "activity".into() };
    opts.seed = g.rng.gen_range(0..1000);
    Scenario { fam: "dbclean".into(), id: index, opts, steps: g.steps, engine: false }
}

/// `branchers` (C18, C07): every variable selector x value selector (index-driven over the 11 x 14
/// grid; plain, alternating with each strategy, dynamic) on models made for the selectors' state:
/// a few FREE variables (negative values, holes, size-2 domains) listed first, then a tight
/// pairwise-different core that forces conflicts, backjumps and - with eager restarts - restarts
/// while the free variables are already fixed. One satisfy, engine events recorded.
pub fn fam_branchers(seed: u64, tier: &str, index: u64) -> Scenario {
    let mut g = Gen::new(rng_for(seed, "branchers", index), params(tier));
    let nfree = g.rng.gen_range(2..=3);
    let free_first = g.rng.gen_bool(0.5);
    let add_free = |g: &mut Gen| -> Vec<u32> {
        let mut out = vec![];
        for _ in 0..nfree {
            let w = g.rng.gen_range(2..=4);
            let lo = g.rng.gen_range(-4..=1);
            let mut vals: Vec<i32> = (lo..lo + w).collect();
            let mut sparse = false;
            if w >= 3 && g.rng.gen_bool(0.4) {
                let _ = vals.remove(g.rng.gen_range(1..(w as usize - 1)));
                sparse = true;
            }
            out.push(g.add_int_var_with(vals, sparse));
        }
        out
    };
    let mut free = vec![];
    if free_first {
        free = add_free(&mut g);
    }
    let ncore = g.rng.gen_range(3..=4);
    let w = ncore - g.rng.gen_range(0..=1).min(if index % 3 == 0 { 1 } else { 0 });
    let lo = g.rng.gen_range(-2..=1);
    let core: Vec<u32> = (0..ncore).map(|_| g.add_int_var_with((lo..lo + w).collect(), false)).collect();
    if !free_first {
        free = add_free(&mut g);
    }
    for i in 0..core.len() {
        for j in i + 1..core.len() {
            g.post(Cons::BinNe { a: View::var(core[i]), b: View::var(core[j]) }, false);
        }
    }
    // side constraints on the core (conflicts that propagation finds late) and a tie of one free
    // variable to the core
    let rhs = g.rng.gen_range(-1..=2);
    g.post(
        Cons::LinLe { terms: vec![View::var(free[nfree - 1]), View::var(core[0]), View { v: core[1], s: -1, o: 0 }], rhs },
        false,
    );
    let rhs2 = 2 * lo + g.rng.gen_range(1..=3);
    g.post(Cons::LinNe { terms: vec![View::var(core[1]), View::var(core[2])], rhs: rhs2 }, false);
    if g.rng.gen_bool(0.5) {
        let rhs3 = lo + g.rng.gen_range(0..=2);
        g.post(Cons::LinLe { terms: vec![View::var(core[core.len() - 1]), View { v: core[0], s: -1, o: 0 }], rhs: rhs3 - lo }, false);
    }
    let var = (index % NUM_VAR_SEL as u64) as u8;
    let val = ((index / NUM_VAR_SEL as u64) % NUM_VAL_SEL as u64) as u8;
    let shape = (index / (NUM_VAR_SEL as u64 * NUM_VAL_SEL as u64)) % 4;
    let br = match shape {
        0 | 1 => BrSpec { kind: "indep".into(), var, val },
        // alternating: every second one with the strategy that switches at restarts
        2 => BrSpec { kind: "alt".into(), var, val: (val % 14) * 4 + if index % 2 == 0 { 0 } else { (index % 4) as u8 } },
        _ => BrSpec { kind: "dyn".into(), var, val },
    };
    g.steps.push(Step::Satisfy { br, stop_at: None });
    let mut opts = Opts::default();
    if g.rng.gen_bool(0.6) || shape == 2 {
        // eager restarts: a restart is considered after every conflict
        opts.restart = ["const", "luby", "geom"][g.rng.gen_range(0..3)].into();
        opts.restart_base = g.rng.gen_range(1..=2);
        opts.restart_min_conflicts = 0;
    }
    opts.seed = g.rng.gen_range(0..1000);
    opts.minimise = g.rng.gen_bool(0.5);
    Scenario { fam: "branchers".into(), id: index, opts, steps: g.steps, engine: true }
}

pub const CONFIGS_PER_MODEL: u64 = 8;

/// `configs`: the same model (index / 8) under 8 different configurations (index % 8): resolver,
/// minimisation, restart policy, nogood database limits, sorting, seed, brancher (C07).
pub fn fam_configs(seed: u64, tier: &str, index: u64) -> Scenario {
    let model_index = index / CONFIGS_PER_MODEL;
    let mut g = Gen::new(rng_for(seed, "configs", model_index), params(tier));
    build_dense_model(&mut g, tier);
    let task = g.rng.gen_range(0..3);
    let obj = g.some_int_view();
    let maximise = g.rng.gen_bool(0.5);
    // the configuration is drawn from a different stream
    let mut c = Gen::new(rng_for(seed, "configs-cfg", index), params(tier));
    c.vars = g.vars.clone();
    let br = c.random_brancher();
    let mut opts = c.random_opts();
    // keep away from the live-lock combination (known finding F17) in half of the runs only
    if index % 2 == 0 && opts.restart_base <= 3 && opts.high_lbd_limit <= 4 {
        opts.restart_base = 4;
        opts.restart = "luby".into();
    }
    match task {
        0 => g.steps.push(Step::Satisfy { br, stop_at: None }),
        1 => g.steps.push(Step::Iterate { br, max: 100000, stop_at: None, resume: false }),
        _ => g.steps.push(Step::Optimise { br, maximise, lus: c.rng.gen_bool(0.5), obj, stop_at: None }),
    }
    Scenario { fam: "configs".into(), id: index, opts, steps: g.steps, engine: index % 4 != 3 }
}

/// Base scenario of the `interrupt` family (the driver derives the interrupted variants from it).
pub fn fam_interrupt_base(seed: u64, tier: &str, index: u64) -> Scenario {
    let mut g = Gen::new(rng_for(seed, "interrupt", index), params(tier));
    // the operation is index-driven: satisfy, iterate, iterate with resumption, LSU, LUS
    let op = index % 5;
    if op == 1 || op == 2 {
        g.p.max_space = g.p.max_space.min(150);
    }
    if g.rng.gen_bool(0.5) && op != 2 {
        build_dense_model(&mut g, tier);
    } else {
        let ncons = g.rng.gen_range(1..=g.p.max_cons);
        g.build_model(ncons, false);
    }
    let br = g.random_brancher();
    match op {
        0 => g.steps.push(Step::Satisfy { br, stop_at: None }),
        1 => g.steps.push(Step::Iterate { br, max: 4, stop_at: None, resume: false }),
        2 => g.steps.push(Step::Iterate { br, max: 100000, stop_at: None, resume: true }),
        _ => {
            // an objective with a range of its own, tied to the model from one side only: both
            // procedures then need several improvement / refutation rounds
            let maximise = g.rng.gen_bool(0.5);
            let style = g.rng.gen_range(0..10);
            let obj = if style < 2 {
                g.some_int_view()
            } else if style < 6 {
                // pairwise different fresh variables with equal ranges: the root bound of the
                // objective is several steps away from the optimum
                let n = g.rng.gen_range(2..=3);
                let a = g.rng.gen_range(-2..=1);
                let w = g.rng.gen_range(n as i32..=n as i32 + 1);
                let ps: Vec<View> =
                    (0..n).map(|_| View::var(g.add_int_var_with((a..a + w).collect(), false))).collect();
                g.post(Cons::Alldiff { xs: ps.clone() }, false);
                let sum_lo = n as i32 * a;
                let k = g.rng.gen_range(0..=1);
                let o = if maximise {
                    g.add_int_var_with((sum_lo - 1..=n as i32 * (a + w - 1) + k).collect(), false)
                } else {
                    g.add_int_var_with((sum_lo - k..=n as i32 * (a + w - 1) + 1).collect(), false)
                };
                let neg = |v: View| View { v: v.v, s: -v.s, o: -v.o };
                let ov = View::var(o);
                let mut terms: Vec<View> = if maximise { vec![ov] } else { vec![neg(ov)] };
                for p_ in ps {
                    terms.push(if maximise { neg(p_) } else { p_ });
                }
                g.post(Cons::LinLe { terms, rhs: k }, false);
                ov
            } else {
                let w = g.rng.gen_range(5..=9);
                let lo = g.rng.gen_range(-4..=1);
                let ivs = g.int_vars();
                let x = View::var(*ivs.choose(&mut g.rng).unwrap());
                let y = View::var(*ivs.choose(&mut g.rng).unwrap());
                let o = g.add_int_var_with((lo..lo + w).collect(), false);
                let k = g.rng.gen_range(-1..=3);
                let neg = |v: View| View { v: v.v, s: -v.s, o: -v.o };
                let ov = View::var(o);
                // minimise: o >= x + y - k; maximise: o <= x + y + k. The bound that propagation
                // derives for o at the root is attained only if x and y can be extreme together.
                let terms = if maximise { vec![ov, neg(x), neg(y)] } else { vec![x, y, neg(ov)] };
                g.post(Cons::LinLe { terms, rhs: k }, false);
                if g.rng.gen_bool(0.3) { View { v: o, s: 2, o: 1 } } else { ov }
            };
            g.steps.push(Step::Optimise { br, maximise, lus: op == 4, obj, stop_at: None })
        }
    }
    let mut opts = g.random_opts();
    if opts.restart_base <= 3 && opts.high_lbd_limit <= 4 {
        opts.high_lbd_limit = 4000;
    }
    Scenario { fam: "interrupt".into(), id: index, opts, steps: g.steps, engine: false }
}

/// The interrupted variant: the last step fires at poll `k`, then the same operation is asked
/// again without interruption (for an iteration with resumption the SAME iterator is asked again
/// after it reported Unknown, and a fresh, uninterrupted iteration follows).
pub fn interrupt_variant(base: &Scenario, k: u64, id: u64, engine: bool) -> Scenario {
    let mut s = base.clone();
    s.id = id;
    s.engine = engine;
    let last = s.steps.pop().unwrap();
    let with_stop = |st: &Step, stop: Option<u64>| -> Step {
        match st.clone() {
            Step::Satisfy { br, .. } => Step::Satisfy { br, stop_at: stop },
            Step::Iterate { br, max, resume, .. } => {
                Step::Iterate { br, max, stop_at: stop, resume: resume && stop.is_some() }
            }
            Step::Optimise { br, maximise, lus, obj, .. } => {
                Step::Optimise { br, maximise, lus, obj, stop_at: stop }
            }
            other => other,
        }
    };
    s.steps.push(with_stop(&last, Some(k)));
    // In two of three variants a constraint that holds for every assignment is posted between the
    // interrupted call and the retry: a propagator that is registered while the interrupted solve
    // left unprocessed events behind (e.g. a unit nogood posted at the root just before the stop)
    if id % 3 != 0 {
        let mut terms: Vec<View> = vec![];
        let mut bound: i32 = 3;
        let mut v = 1u32;
        for st in s.steps.iter() {
            match st {
                Step::NewVar { vals, .. } => {
                    v += 1;
                    if id % 3 == 1 {
                        terms.push(View::var(v));
                        bound += *vals.iter().max().unwrap();
                    } else {
                        terms.push(View { v, s: -1, o: 0 });
                        bound -= *vals.iter().min().unwrap();
                    }
                }
                Step::NewLit | Step::NewLitPred { .. } => v += 1,
                _ => {}
            }
        }
        if !terms.is_empty() {
            s.steps.push(Step::Post { c: Cons::LinLe { terms, rhs: bound }, tag: None });
        }
    }
    s.steps.push(with_stop(&last, None));
    s
}

/// `clauses`: 2-4 variables and a handful of clauses over all four predicate kinds (also over
/// scaled / offset views), all solutions iterated: stresses the nogood propagator's watchers and the
/// translation of view predicates (C01, C02, C03).
pub fn fam_clauses(seed: u64, tier: &str, index: u64) -> Scenario {
    let mut g = Gen::new(rng_for(seed, "clauses", index), params(tier));
    g.p.max_space = 700;
    let nv = g.rng.gen_range(2..=4);
    for _ in 0..nv {
        let _ = g.add_int_var();
    }
    if g.rng.gen_bool(0.5) {
        let _ = g.add_lit();
    }
    let nc = g.rng.gen_range(2..=7);
    for _ in 0..nc {
        let n = g.rng.gen_range(1..=3);
        let mut ps = vec![];
        for _ in 0..n {
            let all: Vec<u32> = g.vars.iter().map(|v| v.v).collect();
            let v = *all.choose(&mut g.rng).unwrap();
            let x = if g.info(v).lit || g.rng.gen_bool(0.5) { View::var(v) } else { g.view_of(v) };
            let mut p = g.pred_on(x);
            // disequalities and equalities are the interesting watchers
            if g.rng.gen_bool(0.4) {
                p.op = if g.rng.gen_bool(0.5) { Op::Ne } else { Op::Eq };
            }
            ps.push(p);
        }
        g.post(Cons::Clause { ps }, false);
    }
    if g.rng.gen_bool(0.3) {
        let c = g.random_cons();
        g.post(c, false);
    }
    let br = g.random_brancher();
    g.steps.push(Step::Iterate { br, max: 100000, stop_at: None, resume: false });
    let mut opts = g.random_opts();
    if opts.restart_base <= 3 && opts.high_lbd_limit <= 4 {
        opts.high_lbd_limit = 4000;
    }
    Scenario { fam: "clauses".into(), id: index, opts, steps: g.steps, engine: index % 2 == 0 }
}

pub const EXH_CLAUSE_TOTAL: u64 = 14 * 16 * 16 * 2;

/// `exh_clause`: exhaustive small scope. Two variables, one binary clause over every pair of
/// predicates (4 operators x 4 constants each), every value selector with input-order variable
/// selection, two domain shapes; all solutions iterated. `index` enumerates the space.
pub fn fam_exh_clause(_seed: u64, tier: &str, index: u64) -> Scenario {
    let index = index % EXH_CLAUSE_TOTAL;
    let valsel = (index % 14) as u8;
    let p1 = (index / 14) % 16;
    let p2 = (index / 224) % 16;
    let shape = (index / 3584) % 2;
    let mut g = Gen::new(rng_for(0, "exh_clause", index), params(tier));
    let (d1, d2) = if shape == 0 {
        (vec![0, 1, 2, 3], vec![0, 1, 2, 3])
    } else {
        (vec![0, 2, 3], vec![-1, 0, 1, 3])
    };
    let x = g.add_int_var_with(d1, shape == 1);
    let y = g.add_int_var_with(d2, shape == 1);
    let ops = [Op::Ge, Op::Le, Op::Ne, Op::Eq];
    let mk = |v: u32, code: u64| Pred {
        x: View::var(v),
        op: ops[(code % 4) as usize],
        k: (code / 4) as i32,
    };
    g.post(Cons::Clause { ps: vec![mk(x, p1), mk(y, p2)] }, false);
    let br = BrSpec { kind: "indep".into(), var: 2, val: valsel };
    g.steps.push(Step::Iterate { br, max: 100000, stop_at: None, resume: false });
    let opts = Opts { restart: "off".into(), ..Opts::default() };
    Scenario { fam: "exh_clause".into(), id: index, opts, steps: g.steps, engine: index % 7 == 0 }
}

pub const EXH_KINDS: [&str; 16] = [
    "lin_le", "lin_eq", "lin_ne", "bin_le", "bin_ne", "plus", "times", "div", "abs", "max", "min",
    "element", "alldiff", "cumulative", "bool_lin_le", "lit_clause",
];
pub const EXH_KIND_PREDS: u64 = 3 * 4 * 4;
pub const EXH_KIND_TOTAL: u64 = 16 * 2 * EXH_KIND_PREDS * EXH_KIND_PREDS;

/// `exh_kind`: exhaustive small scope for the explanation tap. One constraint of a fixed kind
/// (two instances per kind: over plain variables and over views) on three variables with domain
/// -2..3 (and two literals); EVERY ordered pair of predicates over those variables (4 operators x 4
/// constants x 3 variables) is imposed as two consecutive decisions (through assumptions, which are
/// decisions of consecutive levels), then the search is left to finish. Every propagation and
/// conflict on the way goes through the C17 monitors. `index` enumerates the space.
pub fn fam_exh_kind(_seed: u64, tier: &str, index: u64) -> Scenario {
    let index = index % EXH_KIND_TOTAL;
    let p2 = index % EXH_KIND_PREDS;
    let p1 = (index / EXH_KIND_PREDS) % EXH_KIND_PREDS;
    let inst = (index / (EXH_KIND_PREDS * EXH_KIND_PREDS)) % 2;
    let kind = EXH_KINDS[((index / (2 * EXH_KIND_PREDS * EXH_KIND_PREDS)) % 16) as usize];
    // the instance is a deterministic function of (kind, inst)
    let mut g = Gen::new(rng_for(7, kind, inst), params(tier));
    let x = g.add_int_var_with(vec![-2, -1, 0, 1, 2, 3], false);
    let y = g.add_int_var_with(vec![-2, -1, 0, 1, 2, 3], inst == 1);
    let z = g.add_int_var_with(if inst == 1 { vec![-2, 0, 1, 3] } else { vec![-1, 0, 1, 2] }, inst == 1);
    let _ = g.add_lit();
    let _ = g.add_lit();
    let c = if inst == 0 {
        // plain variables wherever the kind allows it
        let (vx, vy, vz) = (View::var(x), View::var(y), View::var(z));
        match kind {
            "lin_le" => Cons::LinLe { terms: vec![vx, View { v: y, s: -2, o: 0 }, vz], rhs: 1 },
            "lin_eq" => Cons::LinEq { terms: vec![vx, vy, View { v: z, s: -1, o: 0 }], rhs: 0 },
            "lin_ne" => Cons::LinNe { terms: vec![vx, vy], rhs: 1 },
            "bin_le" => Cons::BinLe { a: vx, b: vy },
            "bin_ne" => Cons::BinNe { a: vx, b: vy },
            "plus" => Cons::Plus { a: vx, b: vy, c: vz },
            "times" => Cons::Times { a: vx, b: vy, c: vz },
            "div" => Cons::Div { a: vx, b: View { v: z, s: 1, o: 2 }, c: vy },
            "abs" => Cons::Abs { a: vx, b: vy },
            "max" => Cons::Max { xs: vec![vx, vy], y: vz },
            "min" => Cons::Min { xs: vec![vx, vy], y: vz },
            "element" => Cons::Element { idx: View { v: z, s: 1, o: 0 }, xs: vec![vx, vy, const_view(1)], y: View::var(y) },
            "alldiff" => Cons::Alldiff { xs: vec![vx, vy, vz] },
            "cumulative" => Cons::Cumulative { s: vec![vx, vy, vz], d: vec![2, 1, 2], r: vec![1, 2, 1], cap: 2,
                                               opts: CumOpts::all()[(index % 144) as usize] },
            "bool_lin_le" => Cons::BoolLinLe { ws: vec![2, -1], bs: vec![View::var(5), View::var(6)], rhs: 0 },
            _ => Cons::LitClause { ls: vec![View::var(5), View { v: 6, s: -1, o: 1 }] },
        }
    } else {
        let c = g.cons_of_kind(kind);
        // wrapped half of the time (deterministically per kind)
        if kind.len() % 2 == 0 && !matches!(c, Cons::Clause { .. }) {
            Cons::Imp { r: View::var(5), c: Box::new(c) }
        } else {
            c
        }
    };
    g.post(c, false);
    let ops = [Op::Ge, Op::Le, Op::Ne, Op::Eq];
    let mk = |code: u64| -> Pred {
        let v = [x, y, z][(code % 3) as usize];
        let op = ops[((code / 3) % 4) as usize];
        let k = [-1, 0, 1, 2][((code / 12) % 4) as usize];
        Pred { x: View::var(v), op, k }
    };
    let assum = vec![mk(p1), mk(p2)];
    let br = BrSpec { kind: "indep".into(), var: 2, val: (index % 14) as u8 };
    g.steps.push(Step::AssumeSolve { br, assum, core: false, stop_at: None });
    let opts = Opts { restart: "off".into(), ..Opts::default() };
    Scenario { fam: "exh_kind".into(), id: index, opts, steps: g.steps, engine: true }
}

fn const_view(c: i32) -> View {
    View { v: 1, s: c, o: 0 }
}

pub fn generate(fam: &str, seed: u64, tier: &str, index: u64) -> Scenario {
    match fam {
        "solve" => fam_solve(seed, tier, index),
        "iterate" => fam_iterate(seed, tier, index),
        "optimise" => fam_optimise(seed, tier, index),
        "assume" => fam_assume(seed, tier, index),
        "history" => fam_history(seed, tier, index),
        "cumulative" => fam_cumulative(seed, tier, index),
        "reif" => fam_reif(seed, tier, index),
        "configs" => fam_configs(seed, tier, index),
        "clauses" => fam_clauses(seed, tier, index),
        "exh_clause" => fam_exh_clause(seed, tier, index),
        "exh_kind" => fam_exh_kind(seed, tier, index),
        "big" => crate::big::fam_big(seed, tier, index),
        "reif2" => fam_reif2(seed, tier, index),
        "branchers" => fam_branchers(seed, tier, index),
        "dbclean" => fam_dbclean(seed, tier, index),
        "proof" => fam_proof(seed, tier, index),
        "cumulative2" => fam_cumulative2(seed, tier, index),
        "cumulative3" => fam_cumulative3(seed, tier, index),
        "planted_chain" => fam_planted_chain(seed, tier, index),
        "planted_queens" => fam_planted_queens(seed, tier, index),
        "planted_sched" => fam_planted_sched(seed, tier, index),
        "planted_eq" => fam_planted_eq(seed, tier, index),
        "iterate2" => fam_iterate2(seed, tier, index),
        "eqdecide" => fam_eqdecide(seed, tier, index),
        "optimise2" => fam_optimise2(seed, tier, index),
        "cumholes" => fam_cumholes(seed, tier, index),
        "rootbounds" => fam_rootbounds(seed, tier, index),
        "interrupt_base" => fam_interrupt_base(seed, tier, index),
        other => panic!("harness: unknown family {other}"),
    }
}
